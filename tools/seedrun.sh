#!/bin/bash
# usage: tools_seedrun.sh <patch> <property> [extra symgo args]  -- applies the patch to /repo, runs the quick check, reverts
patch=$1; prop=$2; shift 2
cd /repo && git apply "$patch" || { echo "APPLY FAILED"; exit 3; }
cd /verif && bin/symgo check $prop --tier quick "$@" 2>&1 | grep -E "^VIOLATION|^  harness=|^  inputs:|^OK|^INCONCL|^ERROR|^KNOWN|^ENGINE" | cut -c1-300 | head -14
git -C /repo checkout -- .
