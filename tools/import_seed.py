#!/usr/bin/env python3
"""import_seed.py <Cxx> <n> <pkgdir-if-not-mirrored or -> <test-run-regex> : copies an agent deliverable into /verif/seeded/<Cxx>-<n>/"""
import sys, os, shutil, json
cid, n, pkgdir, run = sys.argv[1:5]
src = f"/tmp/wt-out/{cid}"
dst = f"/verif/seeded/{cid}-{n}"
os.makedirs(dst, exist_ok=True)
shutil.copy(f"{src}/patch{n}.diff", f"{dst}/patch.diff")
demo_src = f"{src}/demo{n}"
demo_dst = f"{dst}/demo"
if os.path.exists(demo_dst):
    shutil.rmtree(demo_dst)
test_pkg = None
for root, dirs, files in os.walk(demo_src):
    for f in files:
        if f == "RUN.md":
            shutil.copy(os.path.join(root, f), f"{dst}/RUN.md")
            continue
        rel = os.path.relpath(os.path.join(root, f), demo_src)
        if pkgdir != "-":
            rel = os.path.join(pkgdir, rel)
        out = os.path.join(demo_dst, rel)
        os.makedirs(os.path.dirname(out), exist_ok=True)
        shutil.copy(os.path.join(root, f), out)
        if f.endswith("_test.go"):
            test_pkg = os.path.dirname(rel)
meta = json.load(open(f"{src}/meta{n}.json"))
meta["property"] = cid
meta["demo_pkg"] = "./" + test_pkg
meta["demo_cmd"] = f"GOFLAGS=-mod=mod GOPROXY=off go test -vet=off -count=1 -timeout 40m -run '{run}' ./{test_pkg}/"
meta["origin"] = "independent sub-agent given only the property text and a scratch worktree"
json.dump(meta, open(f"{dst}/meta.json", "w"), indent=1)
print(dst, meta["demo_cmd"])
