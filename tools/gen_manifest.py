#!/usr/bin/env python3
"""Generates /verif/MANIFEST.json from the per-property descriptions below (single source of truth for the interface)."""
import json, os
ROOT = os.path.dirname(os.path.dirname(os.path.abspath(__file__)))
TECH = "bounded symbolic execution of the real go/ssa code (symgo) decided by z3/cvc5; counterexamples replayed natively with go test -overlay"
P = {
 "C01": dict(section="3 C01", text="Decides kernels of taint soundness for every input within bounds: a parameter mark reaching result k is connected to return node k (real NewSummaryGraph+addReturnEdge, <=3 returns x <=4 results, symbolic index); a call is 'handled as a builtin' only for real builtins or error.Error(), every handled call is processed and data-carrying builtins propagate marks (17 names x 4 callee kinds x argc<=4); calling-context recursion cut is by call-site identity; block-path search finds a path iff one exists; and end to end on a hand-built main (t0=source(); t1=other(); r=g(t0,t1); sink(v)) summarised by the real RunIntraProcedural with g loaded from every 0/1 specification matrix, the real forward taint Visitor reports the flow exactly when the data reaches the sink. Program-level soundness over arbitrary Go programs is outside what a solver-based encoding of this code base can reach.",
   note="Hand-built SSA skeletons (struct literals, int-typed values) stand in for typed programs; pointer-typed values and alias propagation, closures, globals, defers, goroutines, rewrites and the configuration options are outside the claim."),
 "C02": dict(section="3 C02", text="Decides on every CFG of <=3 blocks with symbolic begin/end that FindPathBetweenBlocks returns a real path iff one exists and that SimplePathCondition reports exactly the branches taken on that path (this found defect D8), whether a reported condition holds on every path (known finding KF-C02-single-path), that isValidatorCondition treats (condition, polarity) as validating only if that branch implies the validator returned true / a nil error (negations, nil checks with nil on either side, tuple extraction; symbolic outcome), that a validator condition is attached only to values covered by the validated argument, and end to end (real intra-procedural analysis + real forward taint Visitor) on seven placements of the sink relative to the validated branch, including the single-block loop of D8.",
   note="Sanitizer stop and validators reached through pointer-typed data are outside; the exclusivity clause over all paths is a recorded known finding."),
 "C03": dict(section="3 C03", text="Decides that the backward visitor (real backtrace.addNext, following the visitor's prevEdgeInfos protocol) visits the return node of every tuple index for which the forward graph has an out-edge (<=2, thorough 3, edges with symbolic indices), that a reported trace is the visit chain reversed and ends at the backtrace-point argument, and end to end: on a hand-built main (t0=srcA(); t1=srcB(); t2=t[x]+t[y]; sink(v[a0],v[a1])) summarised by the real intra-procedural analysis, the real (*Visitor).Visit reports, for every argument, a trace containing every origin call its value derives from (the same value passed twice to one call is known finding KF-C03-duplicate-argument).",
   note="Closures, globals, on-demand summarisation and pointer-typed arguments (flows back through callee parameters) are outside."),
 "C04": dict(section="3 C04", text="Decides that equalOnNonEmptyFields / IsSource / IsSink / IsSanitizer / IsValidator / IsBacktracePoint identify a candidate exactly when every non-empty specification field matches, with all fields symbolic strings (SMT string theory); that the type string a 'type:' specification is matched against is the Go syntax of the value's type for every nesting (<=3) of pointer/slice/array/chan/map around a named type; and that a call through an interface value is identified by a specification naming the interface method's package, wherever the implementation lives.",
   note="Symbolic regular expressions range over lowercase literals, for which unanchored match = substring (exactly replayable); the remaining construction of candidate identifiers from SSA call forms (function values, bound methods, closures, annotations) is outside."),
 "C05": dict(section="3 C05", text="Decides the max-alarms clause for every int64 limit: the real TestAlarmCount/IncrementAndTestAlarms driven by a model of the three alarm call sites keep at most k flows, at least one when any exists, and everything when k<=0.",
   note="The loop reproducing the three call sites is a model of the visitors; summarize-on-demand / pkg-filter / report-* equivalence needs whole analysis runs and is outside."),
 "C06": dict(section="3 C06", text="Decides on every rendezvous schedule that MapParallel's result does not depend on the worker count, and that summary-graph edges do not depend on the order in which marks are inserted nor on the iteration order of the Returns map (engine forks over all map orders).",
   note="Whole-traversal order dependence, entry-point maps and parallel initialisation are outside."),
 "C07": dict(section="3 C07", text="Decides the termination arguments: lasso detection on the call-stack tree (all label sequences <=4, thorough 5), context-size limit for every int limit, recursion cut, termination and shape of GetAllCallingContexts on every call structure over 2 (thorough 3) functions, termination of defers.AnalyzeFunction (C16) and absence of Go panics on every explored path of every harness.",
   note="Whole-program termination, explicit panic sites in the visitors, the pointer solver and escape transfer functions are outside."),
 "C08": dict(section="3 C08", text="Decides flat-state indexing (uint32 iID*NumValues+vID, full width, cvc5 integer encoding), the join of abstract values, and the whole real NewSummaryGraph+RunIntraProcedural on hand-built functions with symbolic instruction kinds and operand wiring: straight-line code over 12 value-typed kinds (incl. tuple extraction, string/array-typed index operands) with 1..3 results, a diamond with a phi, a single-block loop with a loop-carried phi, a static call (parameter-to-argument edges, call-to-return edges with tuple index), a local memory cell, struct fields, slice elements and handled builtins: every def-use chain from a parameter or call result to a result / call argument has an edge.",
   note="Claim holds under NumValues*NumInstructions < 2^32; the pointer analysis result is empty in the harness, so alias propagation, referrer-driven propagation, closures, globals and the defers simulation are outside."),
 "C09": dict(section="3 C09", text="Decides the loader lemma for symbolic positions (-2..8) against every arity <=4 params (thorough 6) x <=3 results: a by-position edge of a predefined summary is accepted exactly when both positions exist, is mirrored, and a rejected one leaves the graph unchanged; and checks every entry of the built-in table (extracted from /repo's current source and resolved against the real signatures of this Go installation on every run) through the real loader: a flow listed from an existing argument to an existing class of targets is never dropped.",
   note="Whether the listed flows cover a function's real behaviour needs symbolic execution of standard-library bodies and is outside; table keys that do not resolve in this Go version are counted and skipped; the table part is finite concrete data, the solver's role there is path uniformity with the lemma."),
 "C10": dict(section="3 C10", text="Decides that PopulateGraphFromSummary applies a symbolic argument-to-result / argument-to-argument matrix exactly as written (edge iff listed, mirrored in/out, flags, nothing else), that LoadExternalContractSummary gives an interface-method contract precedence over a function contract, and end to end (shared with C01) that the forward taint Visitor propagates through a specified function exactly when the specification lists the result for the tainted argument - no transitive closure over argument-to-argument entries.",
   note="JSON loading, contract name linking, ShouldBuildSummary and call-form resolution are outside."),
 "C14": dict(section="3 C14", text="Decides the graph invariant locality rests on: after every sequence of <=3 API operations on <=3 nodes (symbolic statuses) a pointee's status is at least its pointer's, status >= intrinsic, and derefsAreLocal answers nil exactly when every pointee is Local.",
   note="The ~40 escape transfer cases, Call instantiation and context resolution need typed SSA and are outside."),
 "C15": dict(section="3 C15", text="Decides the join-semilattice laws of EscapeGraph.Merge (idempotent, commutative, upper bound; thorough: associative, least), extensivity and monotonicity of AddEdge/MergeNodeStatus/Merge, Clone independence on graphs over 2 nodes built by the real API, and that StronglyConnectedComponents returns a partition into maximal classes in callee-first order on every directed graph of 3 (thorough 4) nodes.",
   note="Representation invariant: status changes are preceded by AddNode (as every real call site does); the typed transfer functions, Call instantiation and the per-function block worklist are outside."),
 "C16": dict(section="3 C16", text="Decides stackCompare (total order, symbolic int64 indices), stackSetUnion (sorted duplicate-free union, sameAsA), stackPushed (always copies), dataflowTransfer, and the whole AnalyzeFunction against a path-enumeration oracle on every CFG of 2 (thorough 3) blocks, including termination.",
   note="CFGs with more blocks or several defers per block rely on the size-generic lemmas; the consumer in the intra-procedural analysis is outside."),
 "C17": dict(section="3 C17", text="Decides after each of 2 (thorough 3) symbolic insertions through addEdge / addParamEdgeByPos / addReturnEdgeByPos that an out-edge exists iff the in-edge exists and that the in-edge index is an out-edge index (strict per-index mirroring is known finding KF-C17-inedge-single-index), and that SyncGlobals registers exactly the read/write access nodes.",
   note="BuildGraph/Sync linking of call sites needs function names and is outside."),
 "C18": dict(section="7d C18", text="Decides the conservativeness kernel of the reachability tool on skeleton programs built from struct literals: findCallees reports every function an instruction refers to in each of 9 syntactic forms (callee or argument of call / go / defer, closure, store, return) - this found defect D10 - and the real FindReachable (with ssautil.AllFunctions on a hand-built ssa.Program) returns a set that contains the roots, is closed under the reference relation, contains only program functions and shrinks when main or init are excluded, on every 4-function program within the bound.",
   note="The oracle is go/ssa's own operand relation. Interface-method closure over method sets, reflection, functions reached through values created outside the program, the comparison with the pointer-analysis call graph and the dependencies tool are outside; ground truth by execution is replaced by the static reference relation, which is what the tool's own design promises."),
 "C19": dict(section="3 C19", text="Decides findGoFunctions / findRecoverFunctions / findErroredFunctions exactly on every skeleton program of 2 (thorough 3) functions x 2 instruction slots over the static launch forms, allowListed on a labelled path table, and the whole MayPanicAnalyzer (captured standard output) on a hand-built program whose launched function lives in a user package, in no package (generic instantiation / synthetic wrapper), in the standard library or in a look-alike package, with and without a recovering defer.",
   note="go iface.M() and go fv() (dynamic launch forms) need points-to facts and are outside the claim - this is where the implementation is known to be incomplete."),
 "C20": dict(section="3 C20", text="Decides over every rendezvous schedule of the interpreted goroutines/channels/WaitGroup that MapParallel returns f(a[i]) in input order, never deadlocks, never leaks a goroutine, never sends on a closed channel (len<=2, thorough 3; numRoutines in [-1,2], thorough 3), and - with happens-before (vector-clock) race detection over every schedule of lock/unlock operations - that two workers performing arbitrary operations on the shared GlobalNode read/write locations, the AnalyzerState error table and the alarm counter never make unsynchronised conflicting accesses.",
   note="The mapped function is assumed pure; races on other shared structures (flow graph insertion, report writers) and report-file completeness are outside; a race is printed as a VIOLATION only when go test -race confirms it natively."),
}
NA = {
 "C11": "pointer analysis vs run-time aliasing: constraint generation over typed whole-program SSA and the intsets/HVN solver cannot be encoded symbolically within reach (DESIGN §4)",
 "C12": "call-graph completeness depends on the same pointer constraint solver over whole typed programs; no encodable kernel carries the claim (DESIGN §4)",
 "C13": "composition of taint traversal, per-context escape graphs and locality over concurrent programs; no bounded kernel carries the claim (DESIGN §4)",
}
PENDING = json.load(open(os.path.join(ROOT, "tools", "pending.json"))) if os.path.exists(os.path.join(ROOT, "tools", "pending.json")) else {}
checks = []
for pid in sorted(P):
    if pid in PENDING:
        continue
    d = P[pid]
    checks.append({
        "property_id": pid,
        "quick_cmd": f"bin/symgo check {pid} --tier quick",
        "thorough_cmd": f"bin/symgo check {pid} --tier thorough",
        "evidence_file": f"/verif/evidence/{pid}.json",
        "replay_cmd_template": "bin/symgo replay {path}",
        "engine": "symgo",
        "level_claimed": {"category": "model_checking", "text": d["text"] + " Bounded: every statement is for all values of the symbolic inputs within the stated bounds on every explored path; unknown/timeout/unwinding failures are reported as inconclusive (exit 2), never as a pass.", "design_ref": "DESIGN.md §" + d["section"]},
        "level_note": d["note"] + " Trusted base: the symgo SSA executor and its intrinsics (validated by native replay of every counterexample and of sampled passing paths), z3 4.8.12 / cvc5 1.0, go/ssa v0.29.0.",
        "technique": TECH,
    })
na = [{"property_id": k, "reason": v} for k, v in sorted(NA.items())]
for k, v in sorted(PENDING.items()):
    na.append({"property_id": k, "reason": v})
m = {
 "version": 1,
 "setup_cmd": "cd /verif/engine && GOFLAGS=-mod=mod GOPROXY=off GOSUMDB=off GOTOOLCHAIN=local go build -o /verif/bin/symgo . && /verif/bin/symgo selftest",
 "hooks": {"guard": "none: harnesses are injected with go/packages Overlay (engine) and go test -overlay (native replay); /repo is never modified by the machinery",
           "enable": "n/a (overlay files under /verif/harness)",
           "baseline_off_cmd": "cd /repo && GOFLAGS=-mod=mod go test -vet=off -count=1 -timeout 25m ./...",
           "source_commits": [], "add_only": True},
 "engines": [{"name": "symgo", "path": "/verif/engine", "serves_properties": sorted(k for k in P if k not in PENDING),
              "kind_free_text": "path-forking symbolic interpreter over go/ssa (x/tools v0.29.0) of the real repository code, bit-vector/string SMT encoding, z3 -in incremental back end, cvc5 integer encoding for symbolic multiplication, goroutine/channel scheduler enumeration, native replay via go test -overlay"}],
 "checks": checks,
 "not_applicable": na,
 "notes": "Repository fixes for genuine defects found by the checks are 'fix:' commits in /repo (see /verif/known_findings.json 'fixed' entries and DESIGN.md §5). Exit codes: 0 held, 1 violation (VIOLATION line), 2 inconclusive/broken (no VIOLATION line).",
}
json.dump(m, open(os.path.join(ROOT, "MANIFEST.json"), "w"), indent=1)
print("checks:", [c["property_id"] for c in checks], "n/a:", [n["property_id"] for n in na])
