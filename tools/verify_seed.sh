#!/bin/bash
# verify_seed.sh <seed dir> [demo|full] : own confirmation of a seeded change in a scratch worktree (outside /repo
# and /verif): demo passes without the patch, patch applies and builds, demo fails with it; mode full additionally
# runs the complete existing suite with the patch and compares with the 356-test baseline.
set -u
seed=$(realpath "$1"); name=$(basename "$seed"); mode=${2:-full}
wt=/tmp/sv/$name; log=$seed/verify.$mode.log
export GOFLAGS=-mod=mod GOPROXY=off GOSUMDB=off
mkdir -p /tmp/sv; git -C /repo worktree remove --force $wt 2>/dev/null
git -C /repo worktree add -q --detach $wt HEAD || exit 3
demo_cmd=$(python3 -c "import json;print(json.load(open('$seed/meta.json'))['demo_cmd'])")
{
echo "== verify $name ($mode) at $(git -C /repo rev-parse --short HEAD) $(date -u +%FT%TZ)"
cp -r $seed/demo/. $wt/
cd $wt
echo "-- demo without patch"; eval "$demo_cmd" > /tmp/sv/$name.demo0 2>&1; rc0=$?; tail -3 /tmp/sv/$name.demo0; echo "rc=$rc0"
echo "-- apply + build"; git apply $seed/patch.diff; rca=$?; go build ./... ; rcb=$?; echo "apply=$rca build=$rcb"
echo "-- demo with patch"; eval "$demo_cmd" > /tmp/sv/$name.demo1 2>&1; rc1=$?; grep -E "^(--- FAIL|FAIL|ok)" /tmp/sv/$name.demo1 | head -5; echo "rc=$rc1"
rcs=skipped
if [ "$mode" = "full" ]; then
echo "-- full suite with patch (demo files removed)"
(cd $seed/demo && find . -type f) | while read f; do rm -f "$wt/$f"; done
go test -json -vet=off -count=1 -timeout 60m ./... > /tmp/sv/$name.suite.json 2>/tmp/sv/$name.suite.err; rcs=$?
python3 - "$name" <<'PY'
import json,sys
name=sys.argv[1]
passed=set(); failed=set()
for l in open(f'/tmp/sv/{name}.suite.json'):
    try: e=json.loads(l)
    except: continue
    if e.get('Test') and e.get('Action') in ('pass','fail'):
        (passed if e['Action']=='pass' else failed).add(e['Package']+'::'+e['Test'])
base=set(json.load(open('/root/.vp/BASELINE.json'))['stable_pass'])
print("suite: passed",len(passed&base),"of",len(base),"baseline tests; failed:",sorted(failed)[:5],"missing:",sorted(base-passed)[:5])
PY
fi
echo "RESULT $name mode=$mode demo_without=$rc0 apply=$rca build=$rcb demo_with=$rc1 suite=$rcs"
} > $log 2>&1
cd /; git -C /repo worktree remove --force $wt; rm -f /tmp/sv/$name.*
tail -1 $log
