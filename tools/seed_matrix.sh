#!/bin/bash
# seed_matrix.sh [seed ...] : runs, for every seeded change, the quick check of its property (and of the properties
# listed in meta.json "also_check") against a scratch worktree of /repo with the patch applied - /repo itself is not
# touched, evidence goes to a scratch directory. Prints one line per seed: CAUGHT (by which check) or MISSED.
cd /verif
seeds=("$@"); [ ${#seeds[@]} -eq 0 ] && seeds=($(ls seeded))
export GOFLAGS=-mod=mod GOPROXY=off GOSUMDB=off GOTOOLCHAIN=local
for s in "${seeds[@]}"; do
  d=/verif/seeded/$s; [ -f $d/patch.diff ] || continue
  wt=/tmp/sm/$s; ev=/tmp/sm/$s.ev; mkdir -p /tmp/sm; git -C /repo worktree remove --force $wt 2>/dev/null
  git -C /repo worktree add -q --detach $wt HEAD || { echo "$s WORKTREE-FAILED"; continue; }
  if ! git -C $wt apply $d/patch.diff 2>/dev/null; then echo "$s APPLY-FAILED"; git -C /repo worktree remove --force $wt; continue; fi
  props=$(python3 -c "
import json,sys
m=json.load(open('$d/meta.json')) if __import__('os').path.exists('$d/meta.json') else {}
p=[m.get('property','')]+m.get('also_check',[])
print(' '.join(x for x in p if x))")
  [ -z "$props" ] && props=$(echo $s | sed 's/-.*//')
  res="MISSED"
  for p in $props; do
    out=$(VERIF_REPO=$wt VERIF_EVIDENCE_DIR=$ev bin/symgo check $p --tier quick 2>&1 | grep -E "^VIOLATION|^INCONCLUSIVE|^ERROR" | head -1)
    case "$out" in VIOLATION*) res="CAUGHT by $p: $(echo $out | sed 's/.*replay=.*evidence\/replay\///' | cut -c1-110)"; break;; INCONCLUSIVE*|ERROR*) res="INCONCLUSIVE in $p: $(echo $out | cut -c1-120)";; esac
  done
  echo "$s $res"
  git -C /repo worktree remove --force $wt; rm -rf $ev
done
