package main

// Goroutines, channels and WaitGroups: every interpreted goroutine runs on a host goroutine,
// one at a time (baton passing); synchronisation operations are scheduling points and the
// scheduler forks over every enabled transition.

import (
	"fmt"
	"runtime/debug"

	"golang.org/x/tools/go/ssa"
)

type opKind int

const (
	opSend opKind = iota
	opRecv
	opClose
	opWgAdd
	opWgWait
	opLock
	opUnlock
	opRLock
	opRUnlock
)

type syncOp struct {
	kind  opKind
	ch    *ChanV
	val   Value
	wg    *wgState
	mu    *mutexState
	delta int
	// results
	recvVal Value
	recvOK  bool
	fr      *Frame
	ins     ssa.Instruction
}

type wgState struct {
	counter int
	vc      VC
}

type Thread struct {
	id        int
	resume    chan bool
	pending   *syncOp
	done      bool
	started   bool
	abort     *pathAbort
	fv        *FuncV
	args      []Value
	depth     int
	callStack []string
	vc        VC
	frames      []*Frame
	activePanic *goPanicSignal
}

type Sched struct {
	threads []*Thread
	toSched chan *Thread
}

// runThreads executes the harness function as thread 0 under the scheduler.
func (ex *Exec) runThreads() *pathAbort {
	s := &Sched{toSched: make(chan *Thread)}
	ex.sched = s
	main := ex.newThread(&FuncV{Fn: ex.H.Fn}, ex.H.Args)
	res := ex.schedLoop(main)
	// kill whatever is left
	for _, th := range s.threads {
		if !th.done {
			if th.started {
				th.resume <- false
				<-s.toSched
			} else {
				th.done = true
				th.resume <- false
			}
		}
	}
	return res
}

func (ex *Exec) newThread(fv *FuncV, args []Value) *Thread {
	s := ex.sched
	th := &Thread{id: len(s.threads), resume: make(chan bool), fv: fv, args: args, vc: VC{}}
	if ex.cur != nil {
		// go statement: everything the parent did so far happens before the child
		th.vc = ex.cur.vc.copy()
		ex.cur.tick()
	}
	th.vc[th.id] = 1
	s.threads = append(s.threads, th)
	go func() {
		if !<-th.resume {
			return
		}
		th.started = true
		defer func() {
			if r := recover(); r != nil {
				if sig, isPanic := r.(*goPanicSignal); isPanic {
					// a Go panic nobody recovered: the finding it would have been without pending defers
					func() {
						defer func() {
							if r2 := recover(); r2 != nil {
								if pa, ok := r2.(pathAbort); ok {
									r = pa
								} else {
									r = r2
								}
							}
						}()
						ex.reportPanic(sig.id, sig.msg)
					}()
				}
				if pa, ok := r.(pathAbort); ok {
					if pa.kind != abKilled {
						th.abort = &pa
					}
				} else {
					th.abort = &pathAbort{abUnsupported, fmt.Sprintf("engine panic: %v\n%s", r, debug.Stack())}
				}
			}
			th.done = true
			s.toSched <- th
		}()
		r := ex.callValue(th.fv, th.args)
		if th.id == 0 {
			ex.H.Result = r
			ex.H.Results = append(ex.H.Results, r)
		}
	}()
	return th
}

func (ex *Exec) spawn(fv *FuncV, args []Value) {
	ex.newThread(fv, args)
}

// runThread resumes th until it blocks, finishes or aborts.
func (ex *Exec) runThread(th *Thread) *pathAbort {
	ex.cur = th
	th.resume <- true
	<-ex.sched.toSched
	if th.abort != nil {
		return th.abort
	}
	return nil
}

// syncPoint is called by a thread to block on op until the scheduler performs it.
func (ex *Exec) syncPoint(op *syncOp) {
	th := ex.cur
	th.pending = op
	ex.sched.toSched <- th
	if !<-th.resume {
		panic(pathAbort{abKilled, "killed"})
	}
	ex.cur = th
}

type transition struct {
	kind     string
	a, b     *Thread // a: sender / actor, b: receiver
	describe string
}

func (ex *Exec) schedLoop(main *Thread) *pathAbort {
	s := ex.sched
	for {
		// run every thread that has not started yet or is runnable
		progress := true
		for progress {
			progress = false
			for _, th := range s.threads {
				if !th.done && !th.started {
					if ab := ex.runThread(th); ab != nil {
						return ab
					}
					progress = true
				}
			}
		}
		// wg.Done (Add with negative delta) commutes with everything else: perform immediately
		immediate := false
		for _, th := range s.threads {
			if th.done || th.pending == nil {
				continue
			}
			op := th.pending
			if op.kind == opUnlock || op.kind == opRUnlock {
				m := op.mu
				if op.kind == opUnlock {
					if !m.writer {
						ex.cur = th
						ex.reportFromSched(op, "sync: unlock of unlocked mutex")
						return &pathAbort{abPathEnd, "unlock of unlocked mutex"}
					}
					m.writer = false
					m.wvc = th.vc.copy()
				} else {
					if m.readers <= 0 {
						ex.cur = th
						ex.reportFromSched(op, "sync: RUnlock of unlocked RWMutex")
						return &pathAbort{abPathEnd, "RUnlock of unlocked RWMutex"}
					}
					m.readers--
					m.rvc.join(th.vc)
				}
				th.tick()
				th.pending = nil
				if ab := ex.runThread(th); ab != nil {
					return ab
				}
				immediate = true
				break
			}
			if op.kind == opWgAdd && op.delta < 0 {
				if op.wg.vc == nil {
					op.wg.vc = VC{}
				}
				op.wg.vc.join(th.vc)
				th.tick()
				op.wg.counter += op.delta
				if op.wg.counter < 0 {
					ex.cur = th
					ex.reportFromSched(op, "sync: negative WaitGroup counter")
					return &pathAbort{abPathEnd, "negative WaitGroup counter"}
				}
				th.pending = nil
				if ab := ex.runThread(th); ab != nil {
					return ab
				}
				immediate = true
				break
			}
		}
		if immediate {
			continue
		}
		var ts []transition
		for _, th := range s.threads {
			if th.done || th.pending == nil {
				continue
			}
			op := th.pending
			switch op.kind {
			case opSend:
				if op.ch.closed {
					ts = append(ts, transition{kind: "sendclosed", a: th})
					continue
				}
				if len(op.ch.buf) < op.ch.cap {
					ts = append(ts, transition{kind: "bufsend", a: th})
				}
				for _, r := range s.threads {
					if !r.done && r.pending != nil && r.pending.kind == opRecv && r.pending.ch == op.ch && len(op.ch.buf) == 0 {
						ts = append(ts, transition{kind: "rendezvous", a: th, b: r})
					}
				}
			case opRecv:
				if len(op.ch.buf) > 0 {
					ts = append(ts, transition{kind: "bufrecv", a: th})
				} else if op.ch.closed {
					ts = append(ts, transition{kind: "recvclosed", a: th})
				}
			case opClose:
				ts = append(ts, transition{kind: "close", a: th})
			case opWgAdd:
				ts = append(ts, transition{kind: "wgadd", a: th})
			case opWgWait:
				if op.wg.counter == 0 {
					ts = append(ts, transition{kind: "wgwait", a: th})
				}
			case opLock:
				if !op.mu.writer && op.mu.readers == 0 {
					ts = append(ts, transition{kind: "lock", a: th})
				}
			case opRLock:
				if !op.mu.writer {
					ts = append(ts, transition{kind: "rlock", a: th})
				}
			}
		}
		if len(ts) == 0 {
			allDone := true
			for _, th := range s.threads {
				if !th.done {
					allDone = false
				}
			}
			if allDone {
				return nil
			}
			// blocked forever
			_, m := ex.check(nil, true)
			if main.done {
				ex.recordFinding("goroutine-leak", "leak", ex.describeBlocked(), m, "")
			} else {
				ex.recordFinding("deadlock", "deadlock", ex.describeBlocked(), m, "")
			}
			return &pathAbort{abPathEnd, "deadlock/leak"}
		}
		k := 0
		if len(ts) > 1 && !ex.oneSched && (!ex.schedPrefixOn || ex.schedPrefix > 0) {
			if ex.schedPrefixOn {
				ex.schedPrefix--
			}
			k = ex.choose(len(ts), nil, "sched")
		}
		t := ts[k]
		switch t.kind {
		case "lock":
			t.a.vc.join(t.a.pending.mu.wvc)
			t.a.vc.join(t.a.pending.mu.rvc)
			t.a.pending.mu.writer = true
			t.a.pending = nil
			if ab := ex.runThread(t.a); ab != nil {
				return ab
			}
		case "rlock":
			t.a.vc.join(t.a.pending.mu.wvc)
			t.a.pending.mu.readers++
			t.a.pending = nil
			if ab := ex.runThread(t.a); ab != nil {
				return ab
			}
		case "rendezvous":
			t.b.pending.recvVal = t.a.pending.val
			t.b.pending.recvOK = true
			// the send happens before the receive completes and vice versa (unbuffered)
			t.a.vc.join(t.b.vc)
			t.b.vc = t.a.vc.copy()
			t.a.tick()
			t.b.tick()
			t.a.pending, t.b.pending = nil, nil
			if ab := ex.runThread(t.a); ab != nil {
				return ab
			}
			if ab := ex.runThread(t.b); ab != nil {
				return ab
			}
		case "bufsend":
			op := t.a.pending
			op.ch.buf = append(op.ch.buf, op.val)
			op.ch.bufVC = append(op.ch.bufVC, t.a.vc.copy())
			t.a.tick()
			t.a.pending = nil
			if ab := ex.runThread(t.a); ab != nil {
				return ab
			}
		case "bufrecv":
			op := t.a.pending
			op.recvVal = op.ch.buf[0]
			op.recvOK = true
			op.ch.buf = op.ch.buf[1:]
			if len(op.ch.bufVC) > 0 {
				t.a.vc.join(op.ch.bufVC[0])
				op.ch.bufVC = op.ch.bufVC[1:]
			}
			t.a.pending = nil
			if ab := ex.runThread(t.a); ab != nil {
				return ab
			}
		case "recvclosed":
			op := t.a.pending
			op.recvVal = nil
			op.recvOK = false
			if op.ch.closeVC != nil {
				t.a.vc.join(op.ch.closeVC)
			}
			t.a.pending = nil
			if ab := ex.runThread(t.a); ab != nil {
				return ab
			}
		case "sendclosed":
			ex.cur = t.a
			ex.reportFromSched(t.a.pending, "send on closed channel")
			return &pathAbort{abPathEnd, "send on closed channel"}
		case "close":
			op := t.a.pending
			if op.ch.closed {
				ex.cur = t.a
				ex.reportFromSched(op, "close of closed channel")
				return &pathAbort{abPathEnd, "close of closed channel"}
			}
			op.ch.closed = true
			op.ch.closeVC = t.a.vc.copy()
			t.a.tick()
			t.a.pending = nil
			if ab := ex.runThread(t.a); ab != nil {
				return ab
			}
		case "wgadd":
			op := t.a.pending
			op.wg.counter += op.delta
			t.a.pending = nil
			if ab := ex.runThread(t.a); ab != nil {
				return ab
			}
		case "wgwait":
			if t.a.pending.wg.vc != nil {
				t.a.vc.join(t.a.pending.wg.vc)
			}
			t.a.pending = nil
			if ab := ex.runThread(t.a); ab != nil {
				return ab
			}
		}
	}
}

func (ex *Exec) reportFromSched(op *syncOp, msg string) {
	id := "panic@sched"
	if op.fr != nil {
		id = "panic@" + ex.position(op.fr, op.ins)
	}
	_, m := ex.check(nil, true)
	ex.H.AssertIDs[id]++
	ex.recordFinding(id, "panic", msg, m, "")
}

func (ex *Exec) describeBlocked() string {
	s := ""
	for _, th := range ex.sched.threads {
		if th.done {
			continue
		}
		what := "running"
		if th.pending != nil {
			switch th.pending.kind {
			case opSend:
				what = fmt.Sprintf("send on chan#%d", th.pending.ch.id)
			case opRecv:
				what = fmt.Sprintf("recv on chan#%d", th.pending.ch.id)
			case opWgWait:
				what = fmt.Sprintf("WaitGroup.Wait (counter=%d)", th.pending.wg.counter)
			case opLock:
				what = "Mutex.Lock"
			case opRLock:
				what = "RWMutex.RLock"
			}
		}
		s += fmt.Sprintf("goroutine %d blocked at %s; ", th.id, what)
	}
	return s
}

func (ex *Exec) chanSend(fr *Frame, ins ssa.Instruction, ch *ChanV, v Value) {
	if ch == nil {
		ex.unsupported("send on nil channel")
	}
	ex.syncPoint(&syncOp{kind: opSend, ch: ch, val: v, fr: fr, ins: ins})
}

func (ex *Exec) chanRecv(fr *Frame, ins ssa.Instruction, ch *ChanV) (Value, bool) {
	if ch == nil {
		ex.unsupported("receive on nil channel")
	}
	op := &syncOp{kind: opRecv, ch: ch, fr: fr, ins: ins}
	ex.syncPoint(op)
	return op.recvVal, op.recvOK
}

func (ex *Exec) chanClose(fr *Frame, ins ssa.Instruction, ch *ChanV) {
	if ch == nil {
		ex.goPanic(fr, ins, "close of nil channel")
	}
	ex.syncPoint(&syncOp{kind: opClose, ch: ch, fr: fr, ins: ins})
}

func (ex *Exec) wgOf(l *Loc) *wgState {
	w, ok := ex.wg[l]
	if !ok {
		w = &wgState{}
		ex.wg[l] = w
	}
	return w
}
