package main

import (
	"fmt"
	"go/types"
	"os"
	"path/filepath"
	"sort"
	"strings"
	"sync"

	"golang.org/x/tools/go/packages"
	"golang.org/x/tools/go/ssa"
	"golang.org/x/tools/go/ssa/ssautil"
)

const repoModule = "github.com/awslabs/ar-go-tools"

type Program struct {
	SSA       *ssa.Program
	Pkgs      []*packages.Package
	byPath    map[string]*ssa.Package
	sizes     types.Sizes
	mu        sync.Mutex
	built     map[*ssa.Package]bool
	builtFast sync.Map
	implMu    sync.Mutex
	implMem   map[[2]types.Type]bool
	Overlay   map[string]string // virtual path -> real path
}

// harnessOverlay builds the overlay for the given repo-relative package dirs: every file of
// harnessDir/<pkgdir>/*.go is injected as <repo>/<pkgdir>/zz_verif_<name>.go, plus the engine prelude.
func harnessOverlay(repo, harnessRoot string, pkgDirs []string, native bool) (map[string][]byte, map[string]string, error) {
	ov := map[string][]byte{}
	real := map[string]string{}
	for _, pd := range pkgDirs {
		dir := filepath.Join(harnessRoot, pd)
		ents, err := os.ReadDir(dir)
		if err != nil {
			return nil, nil, fmt.Errorf("harness dir %s: %v", dir, err)
		}
		pkgName := ""
		for _, e := range ents {
			if !strings.HasSuffix(e.Name(), ".go") {
				continue
			}
			data, err := os.ReadFile(filepath.Join(dir, e.Name()))
			if err != nil {
				return nil, nil, err
			}
			virt := filepath.Join(repo, pd, "zz_verif_"+e.Name())
			ov[virt] = data
			real[virt] = filepath.Join(dir, e.Name())
			if pkgName == "" {
				pkgName = packageClause(data)
			}
		}
		if pkgName == "" {
			return nil, nil, fmt.Errorf("no harness files in %s", dir)
		}
		for name, data := range extraOverlay[pd] {
			ov[filepath.Join(repo, pd, "zz_verif_"+name)] = data
		}
		rt := "rt_engine.go.txt"
		if native {
			rt = "rt_native.go.txt"
		}
		data, err := os.ReadFile(filepath.Join(harnessRoot, "_rt", rt))
		if err != nil {
			return nil, nil, err
		}
		src := strings.Replace(string(data), "package PKG", "package "+pkgName, 1)
		virt := filepath.Join(repo, pd, "zz_verif_rt.go")
		ov[virt] = []byte(src)
	}
	return ov, real, nil
}

func packageClause(src []byte) string {
	for _, line := range strings.Split(string(src), "\n") {
		line = strings.TrimSpace(line)
		if strings.HasPrefix(line, "package ") {
			return strings.TrimSpace(strings.TrimPrefix(line, "package "))
		}
	}
	return ""
}

func LoadProgram(repo string, patterns []string, overlay map[string][]byte) (*Program, error) {
	cfg := &packages.Config{
		Mode:    packages.LoadAllSyntax,
		Dir:     repo,
		Overlay: overlay,
		Env:     append(os.Environ(), "GOFLAGS=-mod=mod", "GOPROXY=off", "GOSUMDB=off", "GOTOOLCHAIN=local"),
		Tests:   false,
	}
	pkgs, err := packages.Load(cfg, patterns...)
	if err != nil {
		return nil, err
	}
	var errs []string
	packages.Visit(pkgs, nil, func(p *packages.Package) {
		for _, e := range p.Errors {
			errs = append(errs, e.Error())
		}
	})
	if len(errs) > 0 {
		sort.Strings(errs)
		if len(errs) > 12 {
			errs = errs[:12]
		}
		return nil, fmt.Errorf("harness or repository does not compile:\n  %s", strings.Join(errs, "\n  "))
	}
	prog, _ := ssautil.AllPackages(pkgs, ssa.InstantiateGenerics)
	p := &Program{SSA: prog, Pkgs: pkgs, byPath: map[string]*ssa.Package{}, built: map[*ssa.Package]bool{},
		implMem: map[[2]types.Type]bool{}}
	for _, sp := range prog.AllPackages() {
		p.byPath[sp.Pkg.Path()] = sp
	}
	p.sizes = types.SizesFor("gc", "amd64")
	// build only the repository packages eagerly; dependencies are built on demand
	var wg sync.WaitGroup
	for _, sp := range prog.AllPackages() {
		if strings.HasPrefix(sp.Pkg.Path(), repoModule) || strings.HasPrefix(sp.Pkg.Path(), "golang.org/x/tools/go/ssa") {
			wg.Add(1)
			go func(sp *ssa.Package) {
				defer wg.Done()
				sp.Build()
			}(sp)
			p.built[sp] = true
		}
	}
	wg.Wait()
	return p, nil
}

func (p *Program) ensureBuilt(pkg *ssa.Package) {
	if pkg == nil {
		return
	}
	if _, ok := p.builtFast.Load(pkg); ok {
		return
	}
	defer p.builtFast.Store(pkg, true)
	p.mu.Lock()
	defer p.mu.Unlock()
	if p.built[pkg] {
		return
	}
	pkg.Build()
	p.built[pkg] = true
}

func (p *Program) Package(path string) *ssa.Package { return p.byPath[path] }

func (p *Program) lookupMethod(t types.Type, m *types.Func) *ssa.Function {
	p.mu.Lock()
	defer p.mu.Unlock()
	mset := p.SSA.MethodSets.MethodSet(t)
	sel := mset.Lookup(m.Pkg(), m.Name())
	if sel == nil {
		return nil
	}
	fn := p.SSA.MethodValue(sel)
	if fn != nil && fn.Blocks == nil && fn.Pkg != nil && !p.built[fn.Pkg] {
		fn.Pkg.Build()
		p.built[fn.Pkg] = true
	}
	return fn
}

func (p *Program) implements(t types.Type, iface types.Type) bool {
	p.implMu.Lock()
	defer p.implMu.Unlock()
	k := [2]types.Type{t, iface}
	if r, ok := p.implMem[k]; ok {
		return r
	}
	it := iface.Underlying().(*types.Interface)
	r := types.Implements(t, it)
	p.implMem[k] = r
	return r
}

// FindFunc finds a package-level function by package path and name.
func (p *Program) FindFunc(pkgPath, name string) *ssa.Function {
	sp := p.byPath[pkgPath]
	if sp == nil {
		return nil
	}
	return sp.Func(name)
}
