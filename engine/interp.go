package main

import (
	"fmt"
	"go/constant"
	"go/token"
	"go/types"
	"os"
	"strings"
	"time"
	"unicode/utf8"

	"golang.org/x/tools/go/ssa"
)

type Frame struct {
	fn     *ssa.Function
	env    map[ssa.Value]Value
	defers []*deferred
	bind   []Value
}

// goPanicSignal is a Go panic travelling up the interpreted call stack (host panic value). It is raised only when
// some frame below has pending deferred calls (which could recover); otherwise the panic is reported at once.
type goPanicSignal struct {
	val        Value  // the panic value (an interface value)
	id, msg    string // finding identity if the panic is never recovered
	recovered  bool
	deferDepth int // call depth of the deferred function currently allowed to recover
}

type deferred struct {
	fv   *FuncV
	args []Value
	inv  *ssa.CallCommon // for invoke-mode defers
	recv Value
}

func (ex *Exec) get(fr *Frame, v ssa.Value) Value {
	switch x := v.(type) {
	case *ssa.Const:
		return ex.constVal(x)
	case *ssa.Global:
		return Pointer{ex.globalLoc(x)}
	case *ssa.Function:
		return &FuncV{Fn: x}
	case *ssa.Builtin:
		return &FuncV{Builtin: x}
	case *ssa.FreeVar:
		for i, fv := range fr.fn.FreeVars {
			if fv == x {
				return fr.bind[i]
			}
		}
		ex.unsupported("free var %s not found", x.Name())
	}
	val, ok := fr.env[v]
	if !ok {
		ex.unsupported("value %s (%T) not in environment of %s", v.Name(), v, fr.fn)
	}
	if p, isP := val.(PoisonV); isP && ex.lenient == 0 {
		ex.unsupported("use of unsupported value: %s", p.Why)
	}
	return val
}

func (ex *Exec) constVal(c *ssa.Const) Value {
	t := c.Type()
	if c.Value == nil {
		return zero(t)
	}
	if w, _, ok := bvInfo(t); ok {
		if i, exact := constant.Int64Val(constant.ToInt(c.Value)); exact {
			return BVConst(uint64(i), w)
		}
		u, _ := constant.Uint64Val(constant.ToInt(c.Value))
		return BVConst(u, w)
	}
	switch {
	case isBool(t):
		return BoolConst(constant.BoolVal(c.Value))
	case isString(t):
		return StrConst(constant.StringVal(c.Value))
	case isFloat(t):
		f, _ := constant.Float64Val(c.Value)
		return FloatV(f)
	}
	if _, isIface := t.Underlying().(*types.Interface); isIface {
		return IfaceV{}
	}
	return PoisonV{"constant of type " + t.String()}
}

// ---------------------------------------------------------------------------
// Globals and lazy, lenient package initialisation

// Packages whose globals are immutable tables after initialisation: initialised once per harness run and shared
// between paths.
var sharedInitPkgs = map[string]bool{"go/types": true, "go/token": true, "go/constant": true, "unicode": true, "unicode/utf8": true, "strconv": true, "math": true, "math/bits": true}

func (ex *Exec) globalLoc(g *ssa.Global) *Loc {
	if l, ok := ex.globals[g]; ok {
		return l
	}
	pkg := g.Pkg
	if pkg != nil && sharedInitPkgs[pkg.Pkg.Path()] {
		h := ex.H
		if h.SharedGlobals == nil {
			h.SharedGlobals = map[*ssa.Global]*Loc{}
			h.SharedInit = map[*ssa.Package]bool{}
		}
		if !h.SharedInit[pkg] {
			h.SharedInit[pkg] = true
			saved := ex.globals
			ex.globals = h.SharedGlobals
			ex.initPackage(pkg)
			ex.globals = saved
		}
		l, ok := h.SharedGlobals[g]
		if !ok {
			l = &Loc{V: zero(g.Type().(*types.Pointer).Elem())}
			h.SharedGlobals[g] = l
		}
		ex.globals[g] = l
		return l
	}
	if pkg != nil && ex.pkgInit[pkg] == 0 && !strings.HasPrefix(g.Name(), "init$guard") {
		ex.initPackage(pkg)
		if l, ok := ex.globals[g]; ok {
			return l
		}
	}
	l := &Loc{V: zero(g.Type().(*types.Pointer).Elem())}
	ex.globals[g] = l
	return l
}

func (ex *Exec) initPackage(pkg *ssa.Package) {
	ex.pkgInit[pkg] = 1
	ex.H.Prog.ensureBuilt(pkg)
	initFn := pkg.Func("init")
	if initFn == nil || initFn.Blocks == nil {
		ex.pkgInit[pkg] = 2
		return
	}
	ex.lenient++
	savedSteps := ex.steps
	if os.Getenv("SYMGO_DEBUG_INIT") != "" {
		t0 := time.Now()
		defer func() {
			fmt.Fprintf(os.Stderr, "init %s: %v fail=%v stack=%v\n", pkg.Pkg.Path(), time.Since(t0), ex.sideTable["initfail:"+pkg.Pkg.Path()], ex.cur.callStack)
		}()
	}
	func() {
		defer func() {
			if r := recover(); r != nil {
				if pa, ok := r.(pathAbort); ok && (pa.kind == abUnsupported) {
					// the rest of the initialiser is skipped; recorded as an assumption of the run
					ex.sideTable["initfail:"+pkg.Pkg.Path()] = pa.msg
					ex.H.Assumes["package initialiser of "+pkg.Pkg.Path()+" only partially executed: "+pa.msg] = true
					return
				}
				if _, isAbort := r.(pathAbort); !isAbort {
					msg := fmt.Sprint(r)
					ex.sideTable["initfail:"+pkg.Pkg.Path()] = msg
					ex.H.Assumes["package initialiser of "+pkg.Pkg.Path()+" only partially executed: "+msg] = true
					return
				}
				panic(r)
			}
		}()
		ex.call(initFn, nil, nil)
	}()
	ex.steps = savedSteps
	ex.lenient--
	ex.pkgInit[pkg] = 2
}

// ---------------------------------------------------------------------------
// Calls

func (ex *Exec) call(fn *ssa.Function, args []Value, bind []Value) Value {
	name := fn.String()
	if intr := lookupIntrinsic(fn, name); intr != nil {
		ex.H.Stubs[name] = true
		return intr(ex, fn, args)
	}
	ex.H.Prog.ensureBuilt(fn.Pkg)
	if fn.Blocks == nil {
		if fn.Blocks == nil {
			if ex.lenient > 0 {
				return poisonResult(fn, "external function "+name)
			}
			ex.unsupported("call to function without body: %s", name)
		}
	}
	if ex.lenient > 0 && fn.Name() == "init" && fn.Pkg != nil && ex.pkgInit[fn.Pkg] != 1 {
		// dependency initialisers are run lazily
		return nil
	}
	th := ex.cur
	if th.depth > 1500 {
		if ex.termLimit > 0 && ex.termID != "" {
			// unbounded recursion inside a termination window: natively a stack overflow
			_, m := ex.check(nil, true)
			ex.recordFinding(ex.termID, "nontermination", "call depth > 1500 (unbounded recursion) in "+name, m, "")
			ex.abort(abPathEnd, "recursion bound hit")
		}
		ex.abort(abUnwind, "call depth > 1500 in %s", name)
	}
	ex.H.FuncsSeen[name] = true
	th.depth++
	th.callStack = append(th.callStack, fn.Name())
	defer func() {
		th.depth--
		th.callStack = th.callStack[:len(th.callStack)-1]
	}()
	fr := &Frame{fn: fn, env: make(map[ssa.Value]Value, 16), bind: bind}
	if len(args) != len(fn.Params) {
		ex.unsupported("arity mismatch calling %s: %d args, %d params", name, len(args), len(fn.Params))
	}
	for i, p := range fn.Params {
		fr.env[p] = args[i]
	}
	th.frames = append(th.frames, fr)
	defer func() { th.frames = th.frames[:len(th.frames)-1] }()
	return ex.runFrameProtected(fr)
}

// runFrameProtected runs the frame; when a Go panic unwinds through it, the frame's deferred calls are run with the
// panic active, and if one of them recovers the function returns through its recover block.
func (ex *Exec) runFrameProtected(fr *Frame) (res Value) {
	defer func() {
		r := recover()
		if r == nil {
			return
		}
		sig, ok := r.(*goPanicSignal)
		if !ok {
			panic(r)
		}
		th := ex.cur
		for len(fr.defers) > 0 {
			d := fr.defers[len(fr.defers)-1]
			fr.defers = fr.defers[:len(fr.defers)-1]
			saved := th.activePanic
			th.activePanic = sig
			sig.deferDepth = th.depth + 1
			ex.callValue(d.fv, d.args)
			th.activePanic = saved
		}
		if !sig.recovered {
			panic(sig)
		}
		// recovered: the function returns normally through its recover block (named results), or with zero results
		if fr.fn.Recover != nil {
			res = ex.runFrameFrom(fr, fr.fn.Recover)
			return
		}
		results := fr.fn.Signature.Results()
		switch results.Len() {
		case 0:
			res = nil
		case 1:
			res = zero(results.At(0).Type())
		default:
			tv := make(TupleV, results.Len())
			for i := range tv {
				tv[i] = zero(results.At(i).Type())
			}
			res = tv
		}
	}()
	return ex.runFrame(fr)
}

// pendingDefers reports whether a frame of the current thread has deferred calls that would run during a panic.
func (ex *Exec) pendingDefers() bool {
	if ex.cur == nil {
		return false
	}
	for _, f := range ex.cur.frames {
		if len(f.defers) > 0 {
			return true
		}
	}
	return false
}

func poisonResult(fn *ssa.Function, why string) Value {
	res := fn.Signature.Results()
	switch res.Len() {
	case 0:
		return nil
	case 1:
		return PoisonV{why}
	}
	tv := make(TupleV, res.Len())
	for i := range tv {
		tv[i] = PoisonV{why}
	}
	return tv
}

func (ex *Exec) runFrame(fr *Frame) Value {
	return ex.runFrameFrom(fr, fr.fn.Blocks[0])
}

func (ex *Exec) runFrameFrom(fr *Frame, block *ssa.BasicBlock) Value {
	var prev *ssa.BasicBlock
	for {
		var next *ssa.BasicBlock
		for _, ins := range block.Instrs {
			ex.steps++
			if ex.steps > ex.H.StepBudget || (ex.termLimit > 0 && ex.steps > ex.termLimit) {
				ex.stepLimit()
			}
			switch i := ins.(type) {
			case *ssa.Phi:
				for k, p := range block.Preds {
					if p == prev {
						fr.env[i] = ex.get(fr, i.Edges[k])
						break
					}
				}
			case *ssa.If:
				c := ex.get(fr, i.Cond).(*Term)
				if ex.branch(c, "") {
					next = block.Succs[0]
				} else {
					next = block.Succs[1]
				}
			case *ssa.Jump:
				next = block.Succs[0]
			case *ssa.Return:
				var res Value
				switch len(i.Results) {
				case 0:
				case 1:
					res = copyVal(ex.get(fr, i.Results[0]))
				default:
					tv := make(TupleV, len(i.Results))
					for k, r := range i.Results {
						tv[k] = copyVal(ex.get(fr, r))
					}
					res = tv
				}
				return res
			case *ssa.Panic:
				v := ex.get(fr, i.X)
				ex.goPanicVal(fr, ins, "panic: "+showValue(v), v)
			case *ssa.RunDefers:
				ex.runDefers(fr)
			default:
				ex.step(fr, ins)
			}
		}
		if next == nil {
			ex.unsupported("block without terminator in %s", fr.fn)
		}
		prev, block = block, next
	}
}

func (ex *Exec) stepLimit() {
	if ex.termLimit > 0 && ex.steps > ex.termLimit && ex.termID != "" {
		_, m := ex.check(nil, true)
		ex.recordFinding(ex.termID, "nontermination", fmt.Sprintf("more than %d interpreter steps", ex.termLimit)+ex.whereString(), m, "")
		ex.abort(abPathEnd, "non-termination bound hit")
	}
	ex.abort(abUnwind, "step budget %d exceeded", ex.H.StepBudget)
}

func (ex *Exec) runDefers(fr *Frame) {
	for len(fr.defers) > 0 {
		d := fr.defers[len(fr.defers)-1]
		fr.defers = fr.defers[:len(fr.defers)-1]
		ex.callValue(d.fv, d.args)
	}
}

// goPanic reports a reachable Go panic on the current path and ends the path.
func (ex *Exec) goPanic(fr *Frame, ins ssa.Instruction, msg string) {
	ex.goPanicVal(fr, ins, msg, nil)
}

// goPanicVal raises a Go panic with the given value (nil: a run-time error built from msg). If deferred calls are
// pending on the stack the panic unwinds (they may recover); otherwise it is a finding at once.
func (ex *Exec) goPanicVal(fr *Frame, ins ssa.Instruction, msg string, val Value) {
	if ex.lenient > 0 {
		ex.unsupported("panic during package initialisation: %s", msg)
	}
	where := ex.position(fr, ins)
	id := "panic@" + where
	if ex.pendingDefers() {
		if val == nil {
			val = ex.makeError("runtime error: " + msg)
		}
		panic(&goPanicSignal{val: val, id: id, msg: msg + ex.whereString()})
	}
	ex.reportPanic(id, msg+ex.whereString())
}

// reportPanic records an unrecovered Go panic and ends the path.
func (ex *Exec) reportPanic(id, msg string) {
	_, m := ex.check(nil, true)
	ex.H.Stats.PanicChecks++
	ex.H.AssertIDs[id]++
	ex.recordFinding(id, "panic", msg, m, "")
	ex.abort(abPathEnd, "go panic: %s", msg)
}

// panicIf emits the obligation that cond (a panic condition) is unreachable.
func (ex *Exec) panicIf(fr *Frame, ins ssa.Instruction, cond *Term, msg string) {
	if cond.IsConst() && !cond.B {
		return
	}
	if ex.lenient > 0 {
		if cond.IsConst() {
			ex.unsupported("panic during package initialisation: %s", msg)
		}
		return
	}
	if cond.IsConst() {
		ex.goPanic(fr, ins, msg)
	}
	if ex.pendingDefers() {
		// a deferred call may recover: explore the panicking branch as an execution, not as an obligation
		if ex.branch(cond, "panic?") {
			ex.goPanic(fr, ins, msg)
		}
		return
	}
	ex.H.Stats.PanicChecks++
	id := "panic@" + ex.position(fr, ins)
	ex.obligation(id, Not(cond), "panic", msg)
}

func (ex *Exec) position(fr *Frame, ins ssa.Instruction) string {
	fn := fr.fn
	name := fn.String()
	if ins != nil {
		pos := ins.Pos()
		if pos == token.NoPos {
			// look for a nearby instruction with a position
			if b := ins.Block(); b != nil {
				for _, o := range b.Instrs {
					if o.Pos() != token.NoPos {
						pos = o.Pos()
						if o == ins {
							break
						}
					}
				}
			}
		}
		if pos != token.NoPos {
			p := fn.Prog.Fset.Position(pos)
			file := p.Filename
			if i := strings.LastIndex(file, "/"); i >= 0 {
				file = file[i+1:]
			}
			return fmt.Sprintf("%s:%s:%d", name, file, p.Line)
		}
	}
	return name
}

// callValue calls a function value.
func (ex *Exec) callValue(fv *FuncV, args []Value) Value {
	if fv == nil {
		ex.unsupported("call of nil function value")
	}
	if fv.Builtin != nil {
		return ex.callBuiltin(nil, nil, fv.Builtin, args, nil)
	}
	return ex.call(fv.Fn, args, fv.Bind)
}

// prepareCall resolves the callee and arguments of a call instruction.
func (ex *Exec) prepareCall(fr *Frame, ins ssa.Instruction, cc *ssa.CallCommon) (*FuncV, []Value) {
	var args []Value
	if cc.IsInvoke() {
		recv := ex.get(fr, cc.Value)
		iv, ok := recv.(IfaceV)
		if !ok {
			ex.unsupported("invoke on non-interface %T", recv)
		}
		if iv.T == nil {
			ex.goPanic(fr, ins, "nil pointer dereference: method call "+cc.Method.Name()+" on nil interface")
		}
		fn := ex.H.Prog.lookupMethod(iv.T, cc.Method)
		if fn == nil {
			ex.unsupported("method %s not found on %s", cc.Method.Name(), iv.T)
		}
		args = append(args, iv.V)
		for _, a := range cc.Args {
			args = append(args, copyVal(ex.get(fr, a)))
		}
		return &FuncV{Fn: fn}, args
	}
	callee := ex.get(fr, cc.Value)
	fv, ok := callee.(*FuncV)
	if !ok {
		ex.unsupported("call of non-function %T", callee)
	}
	if fv == nil {
		ex.goPanic(fr, ins, "call of nil function")
	}
	for _, a := range cc.Args {
		args = append(args, copyVal(ex.get(fr, a)))
	}
	return fv, args
}

// ---------------------------------------------------------------------------
// Instructions

// poisonStep propagates unsupported values during lenient package initialisation: an instruction with a poisoned
// operand yields a poisoned result (or stores poison) instead of executing.
func (ex *Exec) poisonStep(fr *Frame, ins ssa.Instruction) bool {
	var buf [8]*ssa.Value
	var why PoisonV
	found := false
	for _, op := range ins.Operands(buf[:0]) {
		if *op == nil {
			continue
		}
		if v, ok := fr.env[*op]; ok {
			if p, isP := v.(PoisonV); isP {
				why, found = p, true
				break
			}
		}
	}
	if !found {
		return false
	}
	switch i := ins.(type) {
	case *ssa.Store:
		if p, ok := fr.env[i.Addr].(Pointer); ok && p.L != nil {
			p.L.V = why
		} else if g, ok := i.Addr.(*ssa.Global); ok {
			ex.globalLoc(g).V = why
		}
	case ssa.Value:
		if tup, ok := i.Type().(*types.Tuple); ok {
			tv := make(TupleV, tup.Len())
			for k := range tv {
				tv[k] = why
			}
			fr.env[i] = tv
		} else {
			fr.env[i] = why
		}
	}
	return true
}

func (ex *Exec) step(fr *Frame, ins ssa.Instruction) {
	if ex.lenient > 0 && ex.poisonStep(fr, ins) {
		return
	}
	switch i := ins.(type) {
	case *ssa.DebugRef:
	case *ssa.Alloc:
		fr.env[i] = Pointer{&Loc{V: zero(i.Type().(*types.Pointer).Elem())}}
	case *ssa.BinOp:
		fr.env[i] = ex.binop(fr, i, i.Op, ex.get(fr, i.X), ex.get(fr, i.Y), i.X.Type(), i.Y.Type())
	case *ssa.UnOp:
		fr.env[i] = ex.unop(fr, i)
	case *ssa.Call:
		cc := &i.Call
		if b, ok := cc.Value.(*ssa.Builtin); ok {
			var args []Value
			for _, a := range cc.Args {
				args = append(args, ex.get(fr, a))
			}
			fr.env[i] = ex.callBuiltin(fr, i, b, args, cc)
			return
		}
		fv, args := ex.prepareCall(fr, i, cc)
		if fv.Builtin != nil {
			fr.env[i] = ex.callBuiltin(fr, i, fv.Builtin, args, cc)
			return
		}
		fr.env[i] = ex.call(fv.Fn, args, fv.Bind)
	case *ssa.Defer:
		cc := &i.Call
		if b, ok := cc.Value.(*ssa.Builtin); ok {
			var args []Value
			for _, a := range cc.Args {
				args = append(args, ex.get(fr, a))
			}
			fr.defers = append(fr.defers, &deferred{fv: &FuncV{Builtin: b}, args: args})
			return
		}
		fv, args := ex.prepareCall(fr, i, cc)
		fr.defers = append(fr.defers, &deferred{fv: fv, args: args})
	case *ssa.Go:
		cc := &i.Call
		if _, ok := cc.Value.(*ssa.Builtin); ok {
			ex.unsupported("go builtin")
		}
		fv, args := ex.prepareCall(fr, i, cc)
		ex.spawn(fv, args)
	case *ssa.ChangeType:
		fr.env[i] = ex.get(fr, i.X)
	case *ssa.Convert:
		fr.env[i] = ex.convert(fr, i, ex.get(fr, i.X), i.X.Type(), i.Type())
	case *ssa.MultiConvert:
		fr.env[i] = ex.convert(fr, i, ex.get(fr, i.X), i.X.Type(), i.Type())
	case *ssa.ChangeInterface:
		fr.env[i] = ex.get(fr, i.X)
	case *ssa.MakeInterface:
		fr.env[i] = IfaceV{T: i.X.Type(), V: copyVal(ex.get(fr, i.X))}
	case *ssa.MakeClosure:
		var bind []Value
		for _, b := range i.Bindings {
			bind = append(bind, ex.get(fr, b))
		}
		fr.env[i] = &FuncV{Fn: i.Fn.(*ssa.Function), Bind: bind}
	case *ssa.MakeMap:
		fr.env[i] = &MapV{}
	case *ssa.MakeChan:
		n := ex.get(fr, i.Size).(*Term)
		if !n.IsConst() {
			ex.unsupported("symbolic channel size")
		}
		ex.chanCount++
		fr.env[i] = &ChanV{id: ex.chanCount, cap: int(n.Signed())}
	case *ssa.MakeSlice:
		lenT := ex.get(fr, i.Len).(*Term)
		capT := ex.get(fr, i.Cap).(*Term)
		ln := ex.concretize(to64(lenT), 0, 16, "makeslice len")
		cp := ln
		if capT != lenT {
			cp = ex.concretize(to64(capT), 0, 64, "makeslice cap")
		}
		if ln < 0 || cp < ln {
			ex.goPanic(fr, i, "makeslice: len out of range")
		}
		elem := i.Type().Underlying().(*types.Slice).Elem()
		arr := &ArrayV{E: make([]*Loc, cp)}
		for k := range arr.E {
			arr.E[k] = &Loc{V: zero(elem)}
		}
		fr.env[i] = SliceV{A: arr, Off: 0, Len: ln, Cap: cp}
	case *ssa.Slice:
		fr.env[i] = ex.sliceOp(fr, i)
	case *ssa.FieldAddr:
		p := ex.get(fr, i.X).(Pointer)
		if p.L == nil {
			ex.goPanic(fr, i, "nil pointer dereference (field address)")
		}
		sv, ok := p.L.V.(*StructV)
		if !ok {
			ex.unsupported("FieldAddr on %T", p.L.V)
		}
		fr.env[i] = Pointer{sv.F[i.Field]}
	case *ssa.Field:
		sv, ok := ex.get(fr, i.X).(*StructV)
		if !ok {
			ex.unsupported("Field on %T", ex.get(fr, i.X))
		}
		fr.env[i] = copyVal(sv.F[i.Field].V)
	case *ssa.IndexAddr:
		fr.env[i] = ex.indexAddr(fr, i)
	case *ssa.Index:
		fr.env[i] = ex.indexOp(fr, i)
	case *ssa.Lookup:
		fr.env[i] = ex.lookup(fr, i)
	case *ssa.MapUpdate:
		m := ex.get(fr, i.Map).(*MapV)
		if m == nil {
			ex.goPanic(fr, i, "assignment to entry in nil map")
		}
		ex.raceWrite(m, fr, i)
		ex.mapSet(m, copyVal(ex.get(fr, i.Key)), copyVal(ex.get(fr, i.Value)))
	case *ssa.Store:
		p, ok := ex.get(fr, i.Addr).(Pointer)
		if !ok {
			ex.unsupported("store through %T", ex.get(fr, i.Addr))
		}
		if p.L == nil {
			ex.goPanic(fr, i, "nil pointer dereference (store)")
		}
		if ex.race {
			ex.raceWrite(p.L, fr, i)
			ex.raceAggregate(p.L.V, true, fr, i)
		}
		p.L.V = copyVal(ex.get(fr, i.Val))
	case *ssa.Extract:
		tv, ok := ex.get(fr, i.Tuple).(TupleV)
		if !ok {
			if pz, isP := ex.get(fr, i.Tuple).(PoisonV); isP {
				fr.env[i] = pz
				return
			}
			ex.unsupported("extract from %T", ex.get(fr, i.Tuple))
		}
		fr.env[i] = tv[i.Index]
	case *ssa.TypeAssert:
		fr.env[i] = ex.typeAssert(fr, i)
	case *ssa.Range:
		x := ex.get(fr, i.X)
		switch v := x.(type) {
		case *MapV:
			it := &MapIter{m: v}
			if v != nil {
				ex.raceRead(v, fr, i)
				it.keys = append(it.keys, v.Keys...)
				if ex.mapOrder && len(it.keys) > 1 {
					it.keys = ex.permute(it.keys)
				}
			}
			fr.env[i] = &NativeV{it}
		case *Term:
			if !v.IsConst() {
				ex.unsupported("range over symbolic string")
			}
			fr.env[i] = &NativeV{&MapIter{isS: true, str: v.S}}
		default:
			ex.unsupported("range over %T", x)
		}
	case *ssa.Next:
		it := ex.get(fr, i.Iter).(*NativeV).X.(*MapIter)
		fr.env[i] = ex.iterNext(it, i)
	case *ssa.Send:
		ch := ex.get(fr, i.Chan).(*ChanV)
		ex.chanSend(fr, i, ch, copyVal(ex.get(fr, i.X)))
	case *ssa.Select:
		ex.unsupported("select statement")
	case *ssa.SliceToArrayPointer:
		ex.unsupported("SliceToArrayPointer")
	default:
		ex.unsupported("instruction %T", ins)
	}
}

func to64(t *Term) *Term {
	if t.Sort.W == 64 {
		return t
	}
	return SignExt(t, 64)
}

func (ex *Exec) permute(keys []Value) []Value {
	// fork over all permutations: choose the element for each position in turn
	rest := append([]Value{}, keys...)
	var out []Value
	for len(rest) > 1 {
		k := ex.choose(len(rest), nil, "maporder")
		out = append(out, rest[k])
		rest = append(rest[:k:k], rest[k+1:]...)
	}
	return append(out, rest...)
}

func (ex *Exec) iterNext(it *MapIter, i *ssa.Next) Value {
	if it.isS {
		if it.pos >= len(it.str) {
			return TupleV{termFalse, BVConst(0, 64), BVConst(0, 32)}
		}
		// decode one rune
		r, size := decodeRune(it.str[it.pos:])
		idx := it.pos
		it.pos += size
		return TupleV{termTrue, BVConst(uint64(idx), 64), BVConst(uint64(r), 32)}
	}
	tt := i.Type().(*types.Tuple)
	for it.pos < len(it.keys) {
		k := it.keys[it.pos]
		it.pos++
		// skip keys deleted during iteration
		idx := ex.mapFindConcrete(it.m, k)
		if idx < 0 {
			continue
		}
		return TupleV{termTrue, k, copyVal(it.m.Vals[idx])}
	}
	kz, vz := Value(nil), Value(nil)
	if tt.At(1).Type() != nil {
		if _, invalid := tt.At(1).Type().(*types.Basic); !invalid || tt.At(1).Type().(*types.Basic).Kind() != types.Invalid {
			kz = zero(tt.At(1).Type())
		}
	}
	if b, isB := tt.At(2).Type().(*types.Basic); !isB || b.Kind() != types.Invalid {
		vz = zero(tt.At(2).Type())
	}
	return TupleV{termFalse, kz, vz}
}

func decodeRune(s string) (rune, int) {
	return utf8.DecodeRuneInString(s)
}

// mapFindConcrete finds the index of key k when equality is decided without the solver; -1 if absent.
func (ex *Exec) mapFindConcrete(m *MapV, k Value) int {
	if m == nil {
		return -1
	}
	for i := range m.Keys {
		e := ex.valuesEqual(m.Keys[i], k)
		if e.IsConst() {
			if e.B {
				return i
			}
			continue
		}
		if ex.branch(e, "mapkey") {
			return i
		}
	}
	return -1
}

func (ex *Exec) mapSet(m *MapV, k, v Value) {
	if idx := ex.mapFindConcrete(m, k); idx >= 0 {
		m.Vals[idx] = v
		return
	}
	m.Keys = append(m.Keys, k)
	m.Vals = append(m.Vals, v)
}

func (ex *Exec) mapDelete(m *MapV, k Value) {
	if idx := ex.mapFindConcrete(m, k); idx >= 0 {
		m.Keys = append(m.Keys[:idx:idx], m.Keys[idx+1:]...)
		m.Vals = append(m.Vals[:idx:idx], m.Vals[idx+1:]...)
	}
}

func (ex *Exec) lookup(fr *Frame, i *ssa.Lookup) Value {
	x := ex.get(fr, i.X)
	switch m := x.(type) {
	case *MapV:
		if m != nil {
			ex.raceRead(m, fr, i)
		}
		k := ex.get(fr, i.Index)
		vt := i.X.Type().Underlying().(*types.Map).Elem()
		idx := ex.mapFindConcrete(m, k)
		var v Value
		if idx >= 0 {
			v = copyVal(m.Vals[idx])
		} else {
			v = zero(vt)
		}
		if i.CommaOk {
			return TupleV{v, BoolConst(idx >= 0)}
		}
		return v
	case *Term: // string index
		idxT := to64(ex.get(fr, i.Index).(*Term))
		if !m.IsConst() {
			ex.unsupported("index of symbolic string")
		}
		n := len(m.S)
		ex.panicIf(fr, i, Or(BVCmp("bvslt", idxT, BVConst(0, 64)), BVCmp("bvsge", idxT, BVConst(uint64(n), 64))), "string index out of range")
		k := ex.concretize(idxT, 0, n-1, "string index")
		return BVConst(uint64(m.S[k]), 8)
	}
	ex.unsupported("lookup on %T", x)
	return nil
}

// elemLocs returns the element cells addressed by a slice or *array value.
func (ex *Exec) elemLocs(fr *Frame, ins ssa.Instruction, x Value) []*Loc {
	switch v := x.(type) {
	case SliceV:
		if v.A == nil {
			return nil
		}
		return v.A.E[v.Off : v.Off+v.Len]
	case Pointer:
		if v.L == nil {
			ex.goPanic(fr, ins, "nil pointer dereference (index of nil array pointer)")
		}
		return v.L.V.(*ArrayV).E
	case *ArrayV:
		return v.E
	}
	ex.unsupported("index on %T", x)
	return nil
}

func (ex *Exec) boundsCheck(fr *Frame, ins ssa.Instruction, idx *Term, n int) int {
	idx = to64(idx)
	oob := Or(BVCmp("bvslt", idx, BVConst(0, 64)), BVCmp("bvsge", idx, BVConst(uint64(n), 64)))
	ex.panicIf(fr, ins, oob, fmt.Sprintf("index out of range [sym] with length %d", n))
	if idx.IsConst() {
		return int(idx.Signed())
	}
	return -1
}

func (ex *Exec) indexAddr(fr *Frame, i *ssa.IndexAddr) Value {
	locs := ex.elemLocs(fr, i, ex.get(fr, i.X))
	idx := ex.get(fr, i.Index).(*Term)
	k := ex.boundsCheck(fr, i, idx, len(locs))
	if k < 0 {
		k = ex.concretize(to64(idx), 0, len(locs)-1, "indexaddr")
	}
	return Pointer{locs[k]}
}

func (ex *Exec) indexOp(fr *Frame, i *ssa.Index) Value {
	x := ex.get(fr, i.X)
	if s, ok := x.(*Term); ok {
		if !s.IsConst() {
			ex.unsupported("index of symbolic string")
		}
		idxT := to64(ex.get(fr, i.Index).(*Term))
		n := len(s.S)
		ex.panicIf(fr, i, Or(BVCmp("bvslt", idxT, BVConst(0, 64)), BVCmp("bvsge", idxT, BVConst(uint64(n), 64))), "string index out of range")
		k := ex.concretize(idxT, 0, n-1, "string index")
		return BVConst(uint64(s.S[k]), 8)
	}
	locs := ex.elemLocs(fr, i, x)
	idx := ex.get(fr, i.Index).(*Term)
	k := ex.boundsCheck(fr, i, idx, len(locs))
	if k >= 0 {
		return copyVal(locs[k].V)
	}
	return ex.selectLoc(locs, to64(idx))
}

// selectLoc reads locs[idx] for a symbolic in-range idx: ite chain for scalars, fork otherwise.
func (ex *Exec) selectLoc(locs []*Loc, idx *Term) Value {
	allScalar := true
	for _, l := range locs {
		if _, ok := l.V.(*Term); !ok {
			allScalar = false
			break
		}
	}
	if allScalar && len(locs) > 0 {
		res := locs[len(locs)-1].V.(*Term)
		for k := len(locs) - 2; k >= 0; k-- {
			res = Ite(Eq(idx, BVConst(uint64(k), 64)), locs[k].V.(*Term), res)
		}
		return res
	}
	k := ex.concretize(idx, 0, len(locs)-1, "index")
	return copyVal(locs[k].V)
}

func (ex *Exec) sliceOp(fr *Frame, i *ssa.Slice) Value {
	x := ex.get(fr, i.X)
	getBound := func(v ssa.Value, def int, max int) int {
		if v == nil {
			return def
		}
		t := to64(ex.get(fr, v).(*Term))
		if t.IsConst() {
			return int(t.Signed())
		}
		ex.panicIf(fr, i, Or(BVCmp("bvslt", t, BVConst(0, 64)), BVCmp("bvsgt", t, BVConst(uint64(max), 64))), "slice bounds out of range")
		return ex.concretize(t, 0, max, "slice bound")
	}
	switch v := x.(type) {
	case *Term:
		if !v.IsConst() {
			ex.unsupported("slice of symbolic string")
		}
		lo := getBound(i.Low, 0, len(v.S))
		hi := getBound(i.High, len(v.S), len(v.S))
		if lo < 0 || hi > len(v.S) || lo > hi {
			ex.goPanic(fr, i, fmt.Sprintf("slice bounds out of range [%d:%d] with string length %d", lo, hi, len(v.S)))
		}
		return StrConst(v.S[lo:hi])
	case SliceV:
		lo := getBound(i.Low, 0, v.Cap)
		hi := getBound(i.High, v.Len, v.Cap)
		mx := getBound(i.Max, v.Cap, v.Cap)
		if lo < 0 || hi > v.Cap || lo > hi || mx > v.Cap || hi > mx {
			ex.goPanic(fr, i, fmt.Sprintf("slice bounds out of range [%d:%d:%d] with capacity %d", lo, hi, mx, v.Cap))
		}
		if v.A == nil {
			return SliceV{}
		}
		return SliceV{A: v.A, Off: v.Off + lo, Len: hi - lo, Cap: mx - lo}
	case Pointer:
		if v.L == nil {
			ex.goPanic(fr, i, "slice of nil array pointer")
		}
		arr := v.L.V.(*ArrayV)
		n := len(arr.E)
		lo := getBound(i.Low, 0, n)
		hi := getBound(i.High, n, n)
		mx := getBound(i.Max, n, n)
		if lo < 0 || hi > n || lo > hi || mx > n || hi > mx {
			ex.goPanic(fr, i, "slice bounds out of range")
		}
		return SliceV{A: arr, Off: lo, Len: hi - lo, Cap: mx - lo}
	}
	ex.unsupported("slice of %T", x)
	return nil
}

func (ex *Exec) typeAssert(fr *Frame, i *ssa.TypeAssert) Value {
	x := ex.get(fr, i.X)
	iv, ok := x.(IfaceV)
	if !ok {
		ex.unsupported("type assert on %T", x)
	}
	target := i.AssertedType
	var okk bool
	var res Value
	if _, isIface := target.Underlying().(*types.Interface); isIface {
		if iv.T != nil {
			okk = ex.H.Prog.implements(iv.T, target)
		}
		if okk {
			res = iv
		} else {
			res = IfaceV{}
		}
	} else {
		okk = iv.T != nil && types.Identical(iv.T, target)
		if okk {
			res = copyVal(iv.V)
		} else {
			res = zero(target)
		}
	}
	if i.CommaOk {
		return TupleV{res, BoolConst(okk)}
	}
	if !okk {
		dyn := "nil"
		if iv.T != nil {
			dyn = iv.T.String()
		}
		ex.goPanic(fr, i, "interface conversion: interface is "+dyn+", not "+target.String())
	}
	return res
}

func (ex *Exec) unop(fr *Frame, i *ssa.UnOp) Value {
	x := ex.get(fr, i.X)
	switch i.Op {
	case token.MUL:
		p, ok := x.(Pointer)
		if !ok {
			ex.unsupported("load through %T", x)
		}
		if p.L == nil {
			ex.goPanic(fr, i, "nil pointer dereference (load)")
		}
		if pz, isP := p.L.V.(PoisonV); isP && ex.lenient == 0 {
			ex.unsupported("load of unsupported value: %s", pz.Why)
		}
		if ex.race {
			ex.raceRead(p.L, fr, i)
			ex.raceAggregate(p.L.V, false, fr, i)
		}
		return copyVal(p.L.V)
	case token.NOT:
		return Not(x.(*Term))
	case token.SUB:
		if f, ok := x.(FloatV); ok {
			return -f
		}
		return BVNeg(x.(*Term))
	case token.XOR:
		return BVNot(x.(*Term))
	case token.ARROW:
		ch := x.(*ChanV)
		v, ok := ex.chanRecv(fr, i, ch)
		if v == nil {
			v = zero(i.X.Type().Underlying().(*types.Chan).Elem())
		}
		if i.CommaOk {
			return TupleV{v, BoolConst(ok)}
		}
		return v
	}
	ex.unsupported("unop %s", i.Op)
	return nil
}

func (ex *Exec) binop(fr *Frame, ins ssa.Instruction, op token.Token, x, y Value, xt, yt types.Type) Value {
	switch op {
	case token.EQL:
		return ex.valuesEqual(x, y)
	case token.NEQ:
		return Not(ex.valuesEqual(x, y))
	}
	if fx, ok := x.(FloatV); ok {
		fy := y.(FloatV)
		switch op {
		case token.ADD:
			return fx + fy
		case token.SUB:
			return fx - fy
		case token.MUL:
			return fx * fy
		case token.QUO:
			return fx / fy
		case token.LSS:
			return BoolConst(fx < fy)
		case token.LEQ:
			return BoolConst(fx <= fy)
		case token.GTR:
			return BoolConst(fx > fy)
		case token.GEQ:
			return BoolConst(fx >= fy)
		}
		ex.unsupported("float op %s", op)
	}
	a, ok1 := x.(*Term)
	b, ok2 := y.(*Term)
	if !ok1 || !ok2 {
		ex.unsupported("binop %s on %T,%T", op, x, y)
	}
	if a.Sort.K == KString {
		if op == token.ADD {
			return StrConcat(a, b)
		}
		if a.IsConst() && b.IsConst() {
			switch op {
			case token.LSS:
				return BoolConst(a.S < b.S)
			case token.LEQ:
				return BoolConst(a.S <= b.S)
			case token.GTR:
				return BoolConst(a.S > b.S)
			case token.GEQ:
				return BoolConst(a.S >= b.S)
			}
		}
		ex.unsupported("string op %s on symbolic strings", op)
	}
	if a.Sort.K == KBool {
		switch op {
		case token.AND, token.LAND:
			return And(a, b)
		case token.OR, token.LOR:
			return Or(a, b)
		}
		ex.unsupported("bool op %s", op)
	}
	_, signed, _ := bvInfo(xt)
	w := a.Sort.W
	switch op {
	case token.SHL, token.SHR:
		// shift count may have a different width / signedness
		_, ysigned, _ := bvInfo(yt)
		cnt := b
		if ysigned {
			ex.panicIf(fr, ins, BVCmp("bvslt", cnt, BVConst(0, cnt.Sort.W)), "negative shift amount")
		}
		var big *Term = termFalse
		if cnt.Sort.W > w {
			big = BVCmp("bvuge", cnt, BVConst(uint64(w), cnt.Sort.W))
			cnt = Extract(cnt, w-1, 0)
		} else if cnt.Sort.W < w {
			cnt = ZeroExt(cnt, w)
		}
		var r, over *Term
		if op == token.SHL {
			r = BVBin("bvshl", a, cnt)
			over = BVConst(0, w)
		} else if signed {
			r = BVBin("bvashr", a, cnt)
			over = BVBin("bvashr", a, BVConst(uint64(w-1), w))
		} else {
			r = BVBin("bvlshr", a, cnt)
			over = BVConst(0, w)
		}
		return Ite(big, over, r)
	}
	if a.Sort != b.Sort {
		ex.unsupported("binop %s sort mismatch %v %v", op, a.Sort, b.Sort)
	}
	switch op {
	case token.ADD:
		return BVBin("bvadd", a, b)
	case token.SUB:
		return BVBin("bvsub", a, b)
	case token.MUL:
		return BVBin("bvmul", a, b)
	case token.QUO:
		ex.panicIf(fr, ins, Eq(b, BVConst(0, w)), "integer divide by zero")
		if signed {
			return BVBin("bvsdiv", a, b)
		}
		return BVBin("bvudiv", a, b)
	case token.REM:
		ex.panicIf(fr, ins, Eq(b, BVConst(0, w)), "integer divide by zero")
		if signed {
			return BVBin("bvsrem", a, b)
		}
		return BVBin("bvurem", a, b)
	case token.AND:
		return BVBin("bvand", a, b)
	case token.OR:
		return BVBin("bvor", a, b)
	case token.XOR:
		return BVBin("bvxor", a, b)
	case token.AND_NOT:
		return BVBin("bvand", a, BVNot(b))
	case token.LSS:
		if signed {
			return BVCmp("bvslt", a, b)
		}
		return BVCmp("bvult", a, b)
	case token.LEQ:
		if signed {
			return BVCmp("bvsle", a, b)
		}
		return BVCmp("bvule", a, b)
	case token.GTR:
		if signed {
			return BVCmp("bvsgt", a, b)
		}
		return BVCmp("bvugt", a, b)
	case token.GEQ:
		if signed {
			return BVCmp("bvsge", a, b)
		}
		return BVCmp("bvuge", a, b)
	}
	ex.unsupported("binop %s", op)
	return nil
}

func (ex *Exec) convert(fr *Frame, ins ssa.Instruction, x Value, from, to types.Type) Value {
	fw, fsigned, fInt := bvInfo(from)
	tw, _, tInt := bvInfo(to)
	switch {
	case fInt && tInt:
		t := x.(*Term)
		_ = fw
		if tw < t.Sort.W {
			return Extract(t, tw-1, 0)
		}
		if fsigned {
			return SignExt(t, tw)
		}
		return ZeroExt(t, tw)
	case fInt && isString(to):
		t := x.(*Term)
		if !t.IsConst() {
			ex.unsupported("string(symbolic int)")
		}
		return StrConst(string(rune(t.Signed())))
	case isString(from) && isString(to):
		return x
	case isString(from):
		// string -> []byte / []rune
		s := x.(*Term)
		if !s.IsConst() {
			ex.unsupported("conversion of symbolic string to slice")
		}
		sl, ok := to.Underlying().(*types.Slice)
		if !ok {
			ex.unsupported("convert string to %s", to)
		}
		ew, _, _ := bvInfo(sl.Elem())
		var locs []*Loc
		if ew == 8 {
			for k := 0; k < len(s.S); k++ {
				locs = append(locs, &Loc{V: BVConst(uint64(s.S[k]), 8)})
			}
		} else {
			for _, r := range s.S {
				locs = append(locs, &Loc{V: BVConst(uint64(r), 32)})
			}
		}
		return SliceV{A: &ArrayV{E: locs}, Len: len(locs), Cap: len(locs)}
	case isString(to):
		sv, ok := x.(SliceV)
		if !ok {
			ex.unsupported("convert %T to string", x)
		}
		ew, _, _ := bvInfo(from.Underlying().(*types.Slice).Elem())
		var sb strings.Builder
		for k := 0; k < sv.Len; k++ {
			t := sv.A.E[sv.Off+k].V.(*Term)
			if !t.IsConst() {
				ex.unsupported("string(symbolic bytes)")
			}
			if ew == 8 {
				sb.WriteByte(byte(t.BV))
			} else {
				sb.WriteRune(rune(t.Signed()))
			}
		}
		return StrConst(sb.String())
	case fInt && isFloat(to):
		t := x.(*Term)
		if !t.IsConst() {
			ex.unsupported("float(symbolic int)")
		}
		if fsigned {
			return FloatV(float64(t.Signed()))
		}
		return FloatV(float64(t.BV))
	case isFloat(from) && tInt:
		return BVConst(uint64(int64(float64(x.(FloatV)))), tw)
	case isFloat(from) && isFloat(to):
		return x
	}
	if _, ok := from.Underlying().(*types.Pointer); ok {
		return x // unsafe.Pointer conversions keep the pointer
	}
	if b, ok := from.Underlying().(*types.Basic); ok && b.Kind() == types.UnsafePointer {
		return x
	}
	ex.unsupported("convert %s to %s", from, to)
	return nil
}

// ---------------------------------------------------------------------------
// Builtins

func (ex *Exec) callBuiltin(fr *Frame, ins ssa.Instruction, b *ssa.Builtin, args []Value, cc *ssa.CallCommon) Value {
	switch b.Name() {
	case "len":
		switch v := args[0].(type) {
		case *Term:
			return StrLen(v)
		case SliceV:
			return BVConst(uint64(v.Len), 64)
		case *MapV:
			if v == nil {
				return BVConst(0, 64)
			}
			ex.raceRead(v, fr, ins)
			return BVConst(uint64(len(v.Keys)), 64)
		case *ArrayV:
			return BVConst(uint64(len(v.E)), 64)
		case Pointer:
			if v.L == nil {
				// len of nil *array is the array length; get it from the type
				if cc != nil {
					if pt, ok := cc.Args[0].Type().Underlying().(*types.Pointer); ok {
						return BVConst(uint64(pt.Elem().Underlying().(*types.Array).Len()), 64)
					}
				}
				ex.unsupported("len of nil array pointer")
			}
			return BVConst(uint64(len(v.L.V.(*ArrayV).E)), 64)
		case *ChanV:
			if v == nil {
				return BVConst(0, 64)
			}
			return BVConst(uint64(len(v.buf)), 64)
		}
	case "cap":
		switch v := args[0].(type) {
		case SliceV:
			return BVConst(uint64(v.Cap), 64)
		case *ArrayV:
			return BVConst(uint64(len(v.E)), 64)
		case *ChanV:
			if v == nil {
				return BVConst(0, 64)
			}
			return BVConst(uint64(v.cap), 64)
		}
	case "append":
		s := args[0].(SliceV)
		var add []Value
		switch t := args[1].(type) {
		case SliceV:
			for k := 0; k < t.Len; k++ {
				add = append(add, copyVal(t.A.E[t.Off+k].V))
			}
		case *Term: // append([]byte, string...)
			if !t.IsConst() {
				ex.unsupported("append of symbolic string")
			}
			for k := 0; k < len(t.S); k++ {
				add = append(add, BVConst(uint64(t.S[k]), 8))
			}
		default:
			ex.unsupported("append of %T", args[1])
		}
		if len(add) == 0 {
			return s
		}
		if s.A != nil && s.Len+len(add) <= s.Cap {
			for k, v := range add {
				ex.raceWrite(s.A.E[s.Off+s.Len+k], fr, ins)
				s.A.E[s.Off+s.Len+k].V = v
			}
			return SliceV{A: s.A, Off: s.Off, Len: s.Len + len(add), Cap: s.Cap}
		}
		var elemT types.Type
		if cc != nil {
			elemT = cc.Args[0].Type().Underlying().(*types.Slice).Elem()
		}
		newCap := growCap(s.Cap, s.Len+len(add), elemT, ex.H.Prog)
		arr := &ArrayV{E: make([]*Loc, newCap)}
		for k := 0; k < newCap; k++ {
			switch {
			case k < s.Len:
				arr.E[k] = &Loc{V: copyVal(s.A.E[s.Off+k].V)}
			case k < s.Len+len(add):
				arr.E[k] = &Loc{V: add[k-s.Len]}
			default:
				if elemT != nil {
					arr.E[k] = &Loc{V: zero(elemT)}
				} else {
					arr.E[k] = &Loc{V: nil}
				}
			}
		}
		return SliceV{A: arr, Off: 0, Len: s.Len + len(add), Cap: newCap}
	case "copy":
		dst := args[0].(SliceV)
		n := 0
		switch src := args[1].(type) {
		case SliceV:
			n = dst.Len
			if src.Len < n {
				n = src.Len
			}
			tmp := make([]Value, n)
			for k := 0; k < n; k++ {
				tmp[k] = copyVal(src.A.E[src.Off+k].V)
			}
			for k := 0; k < n; k++ {
				dst.A.E[dst.Off+k].V = tmp[k]
			}
		case *Term:
			if !src.IsConst() {
				ex.unsupported("copy from symbolic string")
			}
			n = dst.Len
			if len(src.S) < n {
				n = len(src.S)
			}
			for k := 0; k < n; k++ {
				dst.A.E[dst.Off+k].V = BVConst(uint64(src.S[k]), 8)
			}
		}
		return BVConst(uint64(n), 64)
	case "delete":
		m := args[0].(*MapV)
		if m != nil {
			ex.raceWrite(m, fr, ins)
			ex.mapDelete(m, args[1])
		}
		return nil
	case "clear":
		switch v := args[0].(type) {
		case *MapV:
			if v != nil {
				v.Keys, v.Vals = nil, nil
			}
		case SliceV:
			ex.unsupported("clear of slice")
		}
		return nil
	case "close":
		ex.chanClose(fr, ins, args[0].(*ChanV))
		return nil
	case "print", "println":
		return nil
	case "recover":
		th := ex.cur
		if sig := th.activePanic; sig != nil && !sig.recovered && th.depth == sig.deferDepth {
			sig.recovered = true
			if iv, ok := sig.val.(IfaceV); ok {
				return iv
			}
			ex.unsupported("recover of a non-interface panic value %T", sig.val)
		}
		return IfaceV{}
	case "min", "max":
		cur := args[0].(*Term)
		var signed bool
		if cc != nil {
			_, signed, _ = bvInfo(cc.Args[0].Type())
		}
		if cur.Sort.K != KBV {
			ex.unsupported("min/max on non-integers")
		}
		for _, a := range args[1:] {
			t := a.(*Term)
			var lt *Term
			if signed {
				lt = BVCmp("bvslt", t, cur)
			} else {
				lt = BVCmp("bvult", t, cur)
			}
			if b.Name() == "min" {
				cur = Ite(lt, t, cur)
			} else {
				cur = Ite(lt, cur, t)
			}
		}
		return cur
	case "ssa:wrapnilchk":
		if isNilValue(args[0]) {
			ex.goPanic(fr, ins, "value method called using nil pointer")
		}
		return args[0]
	}
	ex.unsupported("builtin %s on %T", b.Name(), args[0])
	return nil
}

// Go runtime size classes (runtime/sizeclasses.go)
var sizeClasses = []int{0, 8, 16, 24, 32, 48, 64, 80, 96, 112, 128, 144, 160, 176, 192, 208, 224, 240, 256, 288, 320, 352, 384, 416, 448, 480, 512, 576, 640, 704, 768, 896, 1024, 1152, 1280, 1408, 1536, 1792, 2048, 2304, 2688, 3072, 3200, 3456, 4096, 4864, 5376, 6144, 6528, 6784, 6912, 8192, 9472, 9728, 10240, 10880, 12288, 13568, 14336, 16384, 18432, 19072, 20480, 21760, 24576, 27264, 28672, 32768}

func growCap(oldCap, needed int, elem types.Type, p *Program) int {
	newcap := needed
	doublecap := oldCap + oldCap
	if needed <= doublecap {
		const threshold = 256
		if oldCap < threshold {
			newcap = doublecap
		} else {
			newcap = oldCap
			for newcap < needed {
				newcap += (newcap + 3*threshold) >> 2
			}
		}
	}
	if elem == nil {
		return newcap
	}
	size := int(p.sizes.Sizeof(elem))
	if size <= 0 {
		return newcap
	}
	mem := newcap * size
	for _, c := range sizeClasses {
		if c >= mem {
			return c / size
		}
	}
	return newcap
}
