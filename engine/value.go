package main

import (
	"fmt"
	"go/types"
	"strings"

	"golang.org/x/tools/go/ssa"
)

// Value is an interpreter value:
//   *Term (bool / integer bit-vector / string scalars, possibly symbolic)
//   FloatV, Pointer, *StructV, *ArrayV, SliceV, *MapV, IfaceV, *FuncV, TupleV, *ChanV, PoisonV, *NativeV
type Value interface{}

type FloatV float64

// Loc is an addressable memory cell.
type Loc struct {
	V Value
}

// Pointer points at a Loc (nil L = nil pointer).
type Pointer struct {
	L *Loc
}

type StructV struct {
	F []*Loc
}

type ArrayV struct {
	E []*Loc
}

type SliceV struct {
	A             *ArrayV
	Off, Len, Cap int
}

type MapV struct {
	Keys []Value
	Vals []Value
}

type IfaceV struct {
	T types.Type // dynamic type; nil for the nil interface
	V Value
}

type FuncV struct {
	Fn      *ssa.Function
	Bind    []Value
	Builtin *ssa.Builtin
}

type TupleV []Value

type ChanV struct {
	id      int
	closed  bool
	buf     []Value
	bufVC   []VC
	closeVC VC
	cap     int
}

// PoisonV is produced by lenient package initialisation for values the engine cannot compute;
// using it in any operation aborts the path as unsupported.
type PoisonV struct {
	Why string
}

// NativeV wraps a host Go value (e.g. *regexp.Regexp).
type NativeV struct {
	X interface{}
}

// MapIter is the state of a range over a map or string.
type MapIter struct {
	m    *MapV
	keys []Value
	str  string
	isS  bool
	pos  int
}

func isNilValue(v Value) bool {
	switch x := v.(type) {
	case nil:
		return true
	case Pointer:
		return x.L == nil
	case SliceV:
		return x.A == nil
	case *MapV:
		return x == nil
	case IfaceV:
		return x.T == nil
	case *FuncV:
		return x == nil
	case *ChanV:
		return x == nil
	}
	return false
}

func bvInfo(t types.Type) (w int, signed bool, ok bool) {
	b, isb := t.Underlying().(*types.Basic)
	if !isb {
		return 0, false, false
	}
	switch b.Kind() {
	case types.Int, types.Int64, types.UntypedInt:
		return 64, true, true
	case types.Int32, types.UntypedRune:
		return 32, true, true
	case types.Int16:
		return 16, true, true
	case types.Int8:
		return 8, true, true
	case types.Uint, types.Uint64, types.Uintptr:
		return 64, false, true
	case types.Uint32:
		return 32, false, true
	case types.Uint16:
		return 16, false, true
	case types.Uint8:
		return 8, false, true
	}
	return 0, false, false
}

func isString(t types.Type) bool {
	b, ok := t.Underlying().(*types.Basic)
	return ok && b.Info()&types.IsString != 0
}

func isBool(t types.Type) bool {
	b, ok := t.Underlying().(*types.Basic)
	return ok && b.Info()&types.IsBoolean != 0
}

func isFloat(t types.Type) bool {
	b, ok := t.Underlying().(*types.Basic)
	return ok && b.Info()&types.IsFloat != 0
}

// zero returns the zero value of type t.
func zero(t types.Type) Value {
	switch u := t.Underlying().(type) {
	case *types.Basic:
		if w, _, ok := bvInfo(u); ok {
			return BVConst(0, w)
		}
		switch {
		case u.Info()&types.IsBoolean != 0:
			return termFalse
		case u.Info()&types.IsString != 0:
			return StrConst("")
		case u.Info()&types.IsFloat != 0:
			return FloatV(0)
		case u.Kind() == types.UnsafePointer:
			return Pointer{}
		case u.Kind() == types.UntypedNil:
			return IfaceV{}
		}
		return PoisonV{"zero of basic type " + u.String()}
	case *types.Pointer:
		return Pointer{}
	case *types.Struct:
		s := &StructV{F: make([]*Loc, u.NumFields())}
		for i := range s.F {
			s.F[i] = &Loc{V: zero(u.Field(i).Type())}
		}
		return s
	case *types.Array:
		n := int(u.Len())
		a := &ArrayV{E: make([]*Loc, n)}
		for i := range a.E {
			a.E[i] = &Loc{V: zero(u.Elem())}
		}
		return a
	case *types.Slice:
		return SliceV{}
	case *types.Map:
		return (*MapV)(nil)
	case *types.Interface:
		return IfaceV{}
	case *types.Signature:
		return (*FuncV)(nil)
	case *types.Chan:
		return (*ChanV)(nil)
	case *types.Tuple:
		tv := make(TupleV, u.Len())
		for i := range tv {
			tv[i] = zero(u.At(i).Type())
		}
		return tv
	}
	return PoisonV{"zero of type " + t.String()}
}

// copyVal copies aggregate values (value semantics of structs and arrays).
func copyVal(v Value) Value {
	switch x := v.(type) {
	case *StructV:
		n := &StructV{F: make([]*Loc, len(x.F))}
		for i, f := range x.F {
			n.F[i] = &Loc{V: copyVal(f.V)}
		}
		return n
	case *ArrayV:
		n := &ArrayV{E: make([]*Loc, len(x.E))}
		for i, f := range x.E {
			n.E[i] = &Loc{V: copyVal(f.V)}
		}
		return n
	case TupleV:
		n := make(TupleV, len(x))
		for i := range x {
			n[i] = copyVal(x[i])
		}
		return n
	case IfaceV:
		// the value boxed in an interface is immutable; share
		return x
	}
	return v
}

// valuesEqual builds the boolean term for a == b (Go comparison semantics).
func (ex *Exec) valuesEqual(a, b Value) *Term {
	switch x := a.(type) {
	case *Term:
		y, ok := b.(*Term)
		if !ok {
			ex.unsupported("compare scalar with %T", b)
		}
		if x.Sort != y.Sort {
			ex.unsupported("compare sorts %v %v", x.Sort, y.Sort)
		}
		return Eq(x, y)
	case FloatV:
		return BoolConst(x == b.(FloatV))
	case Pointer:
		switch y := b.(type) {
		case Pointer:
			return BoolConst(x.L == y.L)
		}
		ex.unsupported("compare pointer with %T", b)
	case *StructV:
		y := b.(*StructV)
		r := termTrue
		for i := range x.F {
			r = And(r, ex.valuesEqual(x.F[i].V, y.F[i].V))
		}
		return r
	case *ArrayV:
		y := b.(*ArrayV)
		r := termTrue
		for i := range x.E {
			r = And(r, ex.valuesEqual(x.E[i].V, y.E[i].V))
		}
		return r
	case IfaceV:
		y, ok := b.(IfaceV)
		if !ok {
			ex.unsupported("compare iface with %T", b)
		}
		if x.T == nil || y.T == nil {
			return BoolConst(x.T == nil && y.T == nil)
		}
		if !types.Identical(x.T, y.T) {
			return termFalse
		}
		return ex.valuesEqual(x.V, y.V)
	case *MapV:
		y := b.(*MapV)
		return BoolConst(x == y)
	case SliceV:
		y := b.(SliceV)
		if x.A == nil || y.A == nil {
			return BoolConst(x.A == nil && y.A == nil)
		}
		ex.unsupported("slice comparison")
	case *FuncV:
		y := b.(*FuncV)
		if x == nil || y == nil {
			return BoolConst(x == nil && y == nil)
		}
		ex.unsupported("func comparison")
	case *ChanV:
		y := b.(*ChanV)
		return BoolConst(x == y)
	case TupleV:
		y := b.(TupleV)
		r := termTrue
		for i := range x {
			r = And(r, ex.valuesEqual(x[i], y[i]))
		}
		return r
	case *NativeV:
		y, ok := b.(*NativeV)
		return BoolConst(ok && x == y)
	case nil:
		return BoolConst(b == nil)
	}
	ex.unsupported("valuesEqual on %T", a)
	return nil
}

func showValue(v Value) string {
	return showValueD(v, 0)
}

func showValueD(v Value, d int) string {
	if d > 3 {
		return "…"
	}
	switch x := v.(type) {
	case nil:
		return "<nil>"
	case *Term:
		if x.IsConst() {
			switch x.Sort.K {
			case KBool:
				return fmt.Sprint(x.B)
			case KBV:
				return fmt.Sprint(x.Signed())
			case KString:
				return fmt.Sprintf("%q", x.S)
			}
		}
		return "sym:" + x.Sort.String()
	case FloatV:
		return fmt.Sprint(float64(x))
	case Pointer:
		if x.L == nil {
			return "nil"
		}
		return fmt.Sprintf("&%p", x.L)
	case *StructV:
		var parts []string
		for _, f := range x.F {
			parts = append(parts, showValueD(f.V, d+1))
		}
		return "{" + strings.Join(parts, ",") + "}"
	case *ArrayV:
		var parts []string
		for _, f := range x.E {
			parts = append(parts, showValueD(f.V, d+1))
		}
		return "[" + strings.Join(parts, ",") + "]"
	case SliceV:
		if x.A == nil {
			return "nil[]"
		}
		var parts []string
		for i := 0; i < x.Len; i++ {
			parts = append(parts, showValueD(x.A.E[x.Off+i].V, d+1))
		}
		return "[]{" + strings.Join(parts, ",") + "}"
	case *MapV:
		if x == nil {
			return "nilmap"
		}
		var parts []string
		for i := range x.Keys {
			parts = append(parts, showValueD(x.Keys[i], d+1)+":"+showValueD(x.Vals[i], d+1))
		}
		return "map{" + strings.Join(parts, ",") + "}"
	case IfaceV:
		if x.T == nil {
			return "nil-iface"
		}
		return "iface(" + x.T.String() + ":" + showValueD(x.V, d+1) + ")"
	case *FuncV:
		if x == nil {
			return "nilfunc"
		}
		if x.Fn != nil {
			return "func:" + x.Fn.String()
		}
		return "builtin:" + x.Builtin.Name()
	case TupleV:
		var parts []string
		for _, f := range x {
			parts = append(parts, showValueD(f, d+1))
		}
		return "(" + strings.Join(parts, ",") + ")"
	case PoisonV:
		return "poison(" + x.Why + ")"
	}
	return fmt.Sprintf("%T", v)
}
