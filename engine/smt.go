package main

// SMT term representation with constant folding, SMT-LIB2 printing and a
// long-lived solver process (z3 -in / cvc5 --incremental).

import (
	"bufio"
	"fmt"
	"io"
	"os/exec"
	"strconv"
	"strings"
	"time"
)

type SortKind int

const (
	KBool SortKind = iota
	KBV
	KString
)

type Sort struct {
	K SortKind
	W int // bit width for KBV
}

func (s Sort) String() string {
	switch s.K {
	case KBool:
		return "Bool"
	case KBV:
		return fmt.Sprintf("(_ BitVec %d)", s.W)
	case KString:
		return "String"
	}
	return "?"
}

var SortBool = Sort{K: KBool}
var SortString = Sort{K: KString}

func SortBV(w int) Sort { return Sort{K: KBV, W: w} }

// Term is an immutable SMT term. Constants are folded by the constructors.
type Term struct {
	Op   string // "const", "var", or an SMT operator name
	Args []*Term
	Sort Sort
	BV   uint64 // const BV value (masked)
	B    bool   // const bool
	S    string // const string, or var name
	P1   int    // extract hi / ext amount
	P2   int    // extract lo
	id   int    // unique id for printing
}

var termCounter int

func newTerm(op string, sort Sort, args ...*Term) *Term {
	termCounter++
	return &Term{Op: op, Sort: sort, Args: args, id: termCounter}
}

func (t *Term) IsConst() bool { return t.Op == "const" }

func mask(w int) uint64 {
	if w >= 64 {
		return ^uint64(0)
	}
	return (uint64(1) << uint(w)) - 1
}

func BVConst(v uint64, w int) *Term {
	t := newTerm("const", SortBV(w))
	t.BV = v & mask(w)
	return t
}

var termTrue = &Term{Op: "const", Sort: SortBool, B: true, id: -1}
var termFalse = &Term{Op: "const", Sort: SortBool, B: false, id: -2}

func BoolConst(b bool) *Term {
	if b {
		return termTrue
	}
	return termFalse
}

func StrConst(s string) *Term {
	t := newTerm("const", SortString)
	t.S = s
	return t
}

func Var(name string, sort Sort) *Term {
	t := newTerm("var", sort)
	t.S = name
	return t
}

// signed interpretation of a constant
func (t *Term) Signed() int64 {
	w := t.Sort.W
	v := t.BV
	if w < 64 && v&(uint64(1)<<uint(w-1)) != 0 {
		v |= ^mask(w)
	}
	return int64(v)
}

func Not(a *Term) *Term {
	if a.IsConst() {
		return BoolConst(!a.B)
	}
	if a.Op == "not" {
		return a.Args[0]
	}
	return newTerm("not", SortBool, a)
}

func And(a, b *Term) *Term {
	if a.IsConst() {
		if a.B {
			return b
		}
		return termFalse
	}
	if b.IsConst() {
		if b.B {
			return a
		}
		return termFalse
	}
	if a == b {
		return a
	}
	return newTerm("and", SortBool, a, b)
}

func Or(a, b *Term) *Term {
	if a.IsConst() {
		if a.B {
			return termTrue
		}
		return b
	}
	if b.IsConst() {
		if b.B {
			return termTrue
		}
		return a
	}
	if a == b {
		return a
	}
	return newTerm("or", SortBool, a, b)
}

func Implies(a, b *Term) *Term { return Or(Not(a), b) }

func Ite(c, a, b *Term) *Term {
	if c.IsConst() {
		if c.B {
			return a
		}
		return b
	}
	if a == b {
		return a
	}
	if a.Sort.K == KBool {
		if a.IsConst() && b.IsConst() {
			if a.B == b.B {
				return a
			}
			if a.B {
				return c
			}
			return Not(c)
		}
	}
	if a.IsConst() && b.IsConst() && termConstEq(a, b) {
		return a
	}
	return newTerm("ite", a.Sort, c, a, b)
}

func termConstEq(a, b *Term) bool {
	switch a.Sort.K {
	case KBool:
		return a.B == b.B
	case KBV:
		return a.BV == b.BV
	case KString:
		return a.S == b.S
	}
	return false
}

func Eq(a, b *Term) *Term {
	if a.Sort != b.Sort {
		panic(fmt.Sprintf("Eq: sort mismatch %v vs %v", a.Sort, b.Sort))
	}
	if a == b {
		return termTrue
	}
	if a.IsConst() && b.IsConst() {
		return BoolConst(termConstEq(a, b))
	}
	if a.Sort.K == KBool {
		if a.IsConst() {
			if a.B {
				return b
			}
			return Not(b)
		}
		if b.IsConst() {
			if b.B {
				return a
			}
			return Not(a)
		}
	}
	return newTerm("=", SortBool, a, b)
}

// BVBin builds a binary bit-vector operation with folding. op is the SMT name.
func BVBin(op string, a, b *Term) *Term {
	if a.Sort != b.Sort {
		panic(fmt.Sprintf("BVBin %s: sort mismatch %v vs %v", op, a.Sort, b.Sort))
	}
	w := a.Sort.W
	if a.IsConst() && b.IsConst() {
		x, y := a.BV, b.BV
		sx, sy := a.Signed(), b.Signed()
		var r uint64
		switch op {
		case "bvadd":
			r = x + y
		case "bvsub":
			r = x - y
		case "bvmul":
			r = x * y
		case "bvand":
			r = x & y
		case "bvor":
			r = x | y
		case "bvxor":
			r = x ^ y
		case "bvshl":
			if y >= uint64(w) {
				r = 0
			} else {
				r = x << y
			}
		case "bvlshr":
			if y >= uint64(w) {
				r = 0
			} else {
				r = x >> y
			}
		case "bvashr":
			if y >= uint64(w) {
				if sx < 0 {
					r = ^uint64(0)
				} else {
					r = 0
				}
			} else {
				r = uint64(sx >> y)
			}
		case "bvudiv":
			if y == 0 {
				r = mask(w)
			} else {
				r = x / y
			}
		case "bvurem":
			if y == 0 {
				r = x
			} else {
				r = x % y
			}
		case "bvsdiv":
			if sy == 0 {
				if sx < 0 {
					r = 1
				} else {
					r = mask(w)
				}
			} else if sy == -1 {
				r = uint64(-sx)
			} else {
				r = uint64(sx / sy)
			}
		case "bvsrem":
			if sy == 0 {
				r = x
			} else if sy == -1 {
				r = 0
			} else {
				r = uint64(sx % sy)
			}
		default:
			panic("BVBin fold: " + op)
		}
		return BVConst(r, w)
	}
	// light identities
	switch op {
	case "bvadd", "bvor", "bvxor":
		if a.IsConst() && a.BV == 0 {
			return b
		}
		if b.IsConst() && b.BV == 0 {
			return a
		}
	case "bvsub", "bvshl", "bvlshr", "bvashr":
		if b.IsConst() && b.BV == 0 {
			return a
		}
	case "bvmul":
		if a.IsConst() && a.BV == 1 {
			return b
		}
		if b.IsConst() && b.BV == 1 {
			return a
		}
		if (a.IsConst() && a.BV == 0) || (b.IsConst() && b.BV == 0) {
			return BVConst(0, w)
		}
	case "bvand":
		if (a.IsConst() && a.BV == 0) || (b.IsConst() && b.BV == 0) {
			return BVConst(0, w)
		}
	}
	return newTerm(op, a.Sort, a, b)
}

// BVCmp builds a comparison: bvult bvule bvugt bvuge bvslt bvsle bvsgt bvsge
func BVCmp(op string, a, b *Term) *Term {
	if a.Sort != b.Sort {
		panic(fmt.Sprintf("BVCmp %s: sort mismatch %v vs %v", op, a.Sort, b.Sort))
	}
	if a.IsConst() && b.IsConst() {
		x, y := a.BV, b.BV
		sx, sy := a.Signed(), b.Signed()
		var r bool
		switch op {
		case "bvult":
			r = x < y
		case "bvule":
			r = x <= y
		case "bvugt":
			r = x > y
		case "bvuge":
			r = x >= y
		case "bvslt":
			r = sx < sy
		case "bvsle":
			r = sx <= sy
		case "bvsgt":
			r = sx > sy
		case "bvsge":
			r = sx >= sy
		default:
			panic("BVCmp fold: " + op)
		}
		return BoolConst(r)
	}
	if a == b {
		switch op {
		case "bvule", "bvuge", "bvsle", "bvsge":
			return termTrue
		default:
			return termFalse
		}
	}
	return newTerm(op, SortBool, a, b)
}

func BVNeg(a *Term) *Term {
	if a.IsConst() {
		return BVConst(-a.BV, a.Sort.W)
	}
	return newTerm("bvneg", a.Sort, a)
}

func BVNot(a *Term) *Term {
	if a.IsConst() {
		return BVConst(^a.BV, a.Sort.W)
	}
	return newTerm("bvnot", a.Sort, a)
}

func Extract(a *Term, hi, lo int) *Term {
	if hi == a.Sort.W-1 && lo == 0 {
		return a
	}
	if a.IsConst() {
		return BVConst(a.BV>>uint(lo), hi-lo+1)
	}
	t := newTerm("extract", SortBV(hi-lo+1), a)
	t.P1, t.P2 = hi, lo
	return t
}

func ZeroExt(a *Term, to int) *Term {
	if to == a.Sort.W {
		return a
	}
	if a.IsConst() {
		return BVConst(a.BV, to)
	}
	t := newTerm("zero_extend", SortBV(to), a)
	t.P1 = to - a.Sort.W
	return t
}

func SignExt(a *Term, to int) *Term {
	if to == a.Sort.W {
		return a
	}
	if a.IsConst() {
		return BVConst(uint64(a.Signed()), to)
	}
	t := newTerm("sign_extend", SortBV(to), a)
	t.P1 = to - a.Sort.W
	return t
}

func StrConcat(a, b *Term) *Term {
	if a.IsConst() && b.IsConst() {
		return StrConst(a.S + b.S)
	}
	if a.IsConst() && a.S == "" {
		return b
	}
	if b.IsConst() && b.S == "" {
		return a
	}
	return newTerm("str.++", SortString, a, b)
}

// StrLen returns the length as BV64 (via int2bv)
func StrLen(a *Term) *Term {
	if a.IsConst() {
		return BVConst(uint64(len(a.S)), 64)
	}
	return newTerm("strlen64", SortBV(64), a)
}

// StrContains: subject contains sub
func StrContains(subject, sub *Term) *Term {
	if subject.IsConst() && sub.IsConst() {
		return BoolConst(strings.Contains(subject.S, sub.S))
	}
	if sub.IsConst() && sub.S == "" {
		return termTrue
	}
	return newTerm("str.contains", SortBool, subject, sub)
}

// StrIsLowerLiteral: s consists of lowercase ASCII letters only (so that, as a regular expression, it is a literal)
func StrIsLowerLiteral(s *Term) *Term {
	if s.IsConst() {
		for _, r := range s.S {
			if r < 'a' || r > 'z' {
				return termFalse
			}
		}
		return termTrue
	}
	return newTerm("str.lowerlit", SortBool, s)
}

// UF application: uninterpreted function with given name and result sort
func UFApp(name string, sort Sort, args ...*Term) *Term {
	t := newTerm("uf", sort, args...)
	t.S = name
	return t
}

// ---------------------------------------------------------------------------
// Printing

func smtString(s string) string {
	var sb strings.Builder
	sb.WriteByte('"')
	for _, r := range []byte(s) {
		switch {
		case r == '"':
			sb.WriteString(`""`)
		case r == '\\':
			sb.WriteString(`\u{5c}`)
		case r >= 0x20 && r < 0x7f:
			sb.WriteByte(r)
		default:
			fmt.Fprintf(&sb, `\u{%x}`, r)
		}
	}
	sb.WriteByte('"')
	return sb.String()
}

func constText(t *Term) string {
	switch t.Sort.K {
	case KBool:
		if t.B {
			return "true"
		}
		return "false"
	case KBV:
		if t.Sort.W%4 == 0 {
			return fmt.Sprintf("#x%0*x", t.Sort.W/4, t.BV)
		}
		return fmt.Sprintf("#b%0*b", t.Sort.W, t.BV)
	case KString:
		return smtString(t.S)
	}
	return "?"
}

// printer emits define-fun for shared subterms so that DAGs stay linear.
type printer struct {
	names map[*Term]string
	decls map[string]Sort            // declared variables
	ufs   map[string]string          // declared UFs -> signature
	out   *strings.Builder           // pending definitions
	n     int
}

func newPrinter() *printer {
	return &printer{names: map[*Term]string{}, decls: map[string]Sort{}, ufs: map[string]string{}, out: &strings.Builder{}}
}

// ref returns the text referencing t, emitting definitions into p.out as needed.
func (p *printer) ref(t *Term) string {
	if t.Op == "const" {
		return constText(t)
	}
	if n, ok := p.names[t]; ok {
		return n
	}
	if t.Op == "var" {
		if _, ok := p.decls[t.S]; !ok {
			p.decls[t.S] = t.Sort
			fmt.Fprintf(p.out, "(declare-const %s %s)\n", t.S, t.Sort)
		}
		p.names[t] = t.S
		return t.S
	}
	args := make([]string, len(t.Args))
	for i, a := range t.Args {
		args[i] = p.ref(a)
	}
	var body string
	switch t.Op {
	case "extract":
		body = fmt.Sprintf("((_ extract %d %d) %s)", t.P1, t.P2, args[0])
	case "zero_extend", "sign_extend":
		body = fmt.Sprintf("((_ %s %d) %s)", t.Op, t.P1, args[0])
	case "str.lowerlit":
		body = fmt.Sprintf("(str.in_re %s (re.* (re.range \"a\" \"z\")))", args[0])
	case "strlen64":
		body = fmt.Sprintf("((_ int2bv 64) (str.len %s))", args[0])
	case "uf":
		if _, ok := p.ufs[t.S]; !ok {
			var as []string
			for _, a := range t.Args {
				as = append(as, a.Sort.String())
			}
			sig := fmt.Sprintf("(declare-fun %s (%s) %s)\n", t.S, strings.Join(as, " "), t.Sort)
			p.ufs[t.S] = sig
			p.out.WriteString(sig)
		}
		body = fmt.Sprintf("(%s %s)", t.S, strings.Join(args, " "))
	default:
		body = "(" + t.Op + " " + strings.Join(args, " ") + ")"
	}
	p.n++
	name := fmt.Sprintf("t!%d", p.n)
	fmt.Fprintf(p.out, "(define-fun %s () %s %s)\n", name, t.Sort, body)
	p.names[t] = name
	return name
}

// flush returns pending definitions text and clears the buffer.
func (p *printer) flush() string {
	s := p.out.String()
	p.out.Reset()
	return s
}

// ---------------------------------------------------------------------------
// Solver process

type SatResult int

const (
	Unsat SatResult = iota
	Sat
	Unknown
)

func (r SatResult) String() string {
	return [...]string{"unsat", "sat", "unknown"}[r]
}

type Solver struct {
	name    string
	cmd     *exec.Cmd
	in      io.WriteCloser
	out     *bufio.Reader
	p       *printer
	nAssert int // number of assertions at base level sent
	// statistics
	Queries   int
	NSat      int
	NUnsat    int
	NUnknown  int
	Time      time.Duration
	timeoutMs int
	log       io.Writer
}

func NewSolver(kind string, timeoutMs int) (*Solver, error) {
	var cmd *exec.Cmd
	switch kind {
	case "z3":
		cmd = exec.Command("z3", "-in")
	case "z3-new":
		cmd = exec.Command("z3-new", "-in")
	case "cvc5":
		cmd = exec.Command("cvc5", "--incremental", "--lang=smt2", "--produce-models", "--strings-exp", fmt.Sprintf("--tlimit-per=%d", timeoutMs))
	default:
		return nil, fmt.Errorf("unknown solver %s", kind)
	}
	in, err := cmd.StdinPipe()
	if err != nil {
		return nil, err
	}
	out, err := cmd.StdoutPipe()
	if err != nil {
		return nil, err
	}
	cmd.Stderr = cmd.Stdout
	if err := cmd.Start(); err != nil {
		return nil, err
	}
	s := &Solver{name: kind, cmd: cmd, in: in, out: bufio.NewReaderSize(out, 1<<16), timeoutMs: timeoutMs}
	s.Reset()
	return s, nil
}

func (s *Solver) Close() {
	if s == nil || s.cmd == nil {
		return
	}
	s.in.Close()
	s.cmd.Process.Kill()
	s.cmd.Wait()
}

func (s *Solver) send(text string) {
	if s.log != nil {
		io.WriteString(s.log, text)
	}
	io.WriteString(s.in, text)
}

// roundtrip sends text followed by an echo marker and returns the lines printed before the marker.
func (s *Solver) roundtrip(text string) ([]string, error) {
	s.send(text + "(echo \"<<done>>\")\n")
	var lines []string
	for {
		line, err := s.out.ReadString('\n')
		if err != nil {
			return lines, fmt.Errorf("solver %s died: %v (%v)", s.name, err, lines)
		}
		line = strings.TrimSpace(line)
		if line == "<<done>>" || line == "\"<<done>>\"" {
			return lines, nil
		}
		if line != "" {
			lines = append(lines, line)
		}
	}
}

// Reset clears all assertions and declarations.
func (s *Solver) Reset() {
	s.p = newPrinter()
	s.nAssert = 0
	pre := "(reset)\n"
	if s.name == "cvc5" {
		pre += "(set-logic ALL)\n"
	} else {
		pre += fmt.Sprintf("(set-option :timeout %d)\n", s.timeoutMs)
	}
	s.send(pre)
}

// Assert adds a base-level assertion.
func (s *Solver) Assert(t *Term) {
	r := s.p.ref(t)
	s.send(s.p.flush() + "(assert " + r + ")\n")
	s.nAssert++
}

// Check asks whether the base-level assertions together with extra are satisfiable.
// When wantModel is non-nil and the result is sat, the values of those variables are returned.
func (s *Solver) Check(extra []*Term, wantModel []*Term) (SatResult, map[string]*Term, error) {
	start := time.Now()
	defer func() { s.Time += time.Since(start) }()
	s.Queries++
	var sb strings.Builder
	refs := make([]string, len(extra))
	for i, e := range extra {
		refs[i] = s.p.ref(e)
	}
	var mrefs []string
	for _, v := range wantModel {
		mrefs = append(mrefs, s.p.ref(v))
	}
	sb.WriteString(s.p.flush())
	sb.WriteString("(push 1)\n")
	for _, r := range refs {
		sb.WriteString("(assert " + r + ")\n")
	}
	sb.WriteString("(check-sat)\n")
	lines, err := s.roundtrip(sb.String())
	if err != nil {
		return Unknown, nil, err
	}
	res := Unknown
	bad := false
	for _, l := range lines {
		switch {
		case l == "sat":
			res = Sat
		case l == "unsat":
			res = Unsat
		case l == "unknown":
			res = Unknown
		case strings.HasPrefix(l, "(error"):
			bad = true
			err = fmt.Errorf("solver error: %s", l)
		}
	}
	if bad {
		res = Unknown
	}
	var model map[string]*Term
	if res == Sat && len(wantModel) > 0 {
		lines, merr := s.roundtrip("(get-value (" + strings.Join(mrefs, " ") + "))\n")
		if merr != nil {
			return Unknown, nil, merr
		}
		model, merr = parseModel(strings.Join(lines, " "), wantModel)
		if merr != nil {
			err = merr
			res = Unknown
		}
	}
	s.send("(pop 1)\n")
	switch res {
	case Sat:
		s.NSat++
	case Unsat:
		s.NUnsat++
	default:
		s.NUnknown++
	}
	return res, model, err
}

// parseModel parses "((name value) (name value) ...)".
func parseModel(text string, vars []*Term) (map[string]*Term, error) {
	toks := tokenize(text)
	pos := 0
	expect := func(s string) error {
		if pos >= len(toks) || toks[pos] != s {
			got := "<eof>"
			if pos < len(toks) {
				got = toks[pos]
			}
			return fmt.Errorf("model parse: expected %q got %q in %s", s, got, text)
		}
		pos++
		return nil
	}
	if err := expect("("); err != nil {
		return nil, err
	}
	model := map[string]*Term{}
	for i := 0; i < len(vars); i++ {
		if err := expect("("); err != nil {
			return nil, err
		}
		name := toks[pos]
		pos++
		// value may be an s-expr
		start := pos
		depth := 0
		for {
			if pos >= len(toks) {
				return nil, fmt.Errorf("model parse: eof")
			}
			if toks[pos] == "(" {
				depth++
			} else if toks[pos] == ")" {
				if depth == 0 {
					break
				}
				depth--
			}
			pos++
		}
		valToks := toks[start:pos]
		pos++ // closing )
		v, err := parseValue(valToks, vars[i].Sort)
		if err != nil {
			return nil, fmt.Errorf("model parse %s: %v", name, err)
		}
		model[vars[i].S] = v
	}
	return model, nil
}

func tokenize(s string) []string {
	var toks []string
	i := 0
	for i < len(s) {
		c := s[i]
		switch {
		case c == ' ' || c == '\t' || c == '\n' || c == '\r':
			i++
		case c == '(' || c == ')':
			toks = append(toks, string(c))
			i++
		case c == '"':
			j := i + 1
			for j < len(s) {
				if s[j] == '"' {
					if j+1 < len(s) && s[j+1] == '"' {
						j += 2
						continue
					}
					break
				}
				j++
			}
			toks = append(toks, s[i:j+1])
			i = j + 1
		default:
			j := i
			for j < len(s) && !strings.ContainsRune(" \t\n\r()", rune(s[j])) {
				j++
			}
			toks = append(toks, s[i:j])
			i = j
		}
	}
	return toks
}

func parseValue(toks []string, sort Sort) (*Term, error) {
	if len(toks) == 0 {
		return nil, fmt.Errorf("empty value")
	}
	switch sort.K {
	case KBool:
		return BoolConst(toks[0] == "true"), nil
	case KBV:
		t := toks[0]
		if strings.HasPrefix(t, "#x") {
			v, err := strconv.ParseUint(t[2:], 16, 64)
			return BVConst(v, sort.W), err
		}
		if strings.HasPrefix(t, "#b") {
			v, err := strconv.ParseUint(t[2:], 2, 64)
			return BVConst(v, sort.W), err
		}
		if t == "(" && len(toks) >= 4 && toks[1] == "_" && strings.HasPrefix(toks[2], "bv") {
			v, err := strconv.ParseUint(toks[2][2:], 10, 64)
			return BVConst(v, sort.W), err
		}
		return nil, fmt.Errorf("bad bv value %v", toks)
	case KString:
		t := toks[0]
		if len(t) < 2 || t[0] != '"' {
			return nil, fmt.Errorf("bad string value %v", toks)
		}
		return StrConst(unescapeSMT(t[1 : len(t)-1])), nil
	}
	return nil, fmt.Errorf("bad sort")
}

func unescapeSMT(s string) string {
	s = strings.ReplaceAll(s, `""`, `"`)
	var sb strings.Builder
	for i := 0; i < len(s); i++ {
		if s[i] == '\\' && i+1 < len(s) && s[i+1] == 'u' {
			// \u{X..} or \uXXXX
			if i+2 < len(s) && s[i+2] == '{' {
				j := strings.IndexByte(s[i:], '}')
				if j > 0 {
					v, err := strconv.ParseUint(s[i+3:i+j], 16, 32)
					if err == nil {
						sb.WriteRune(rune(v))
						i += j
						continue
					}
				}
			} else if i+5 < len(s) {
				v, err := strconv.ParseUint(s[i+2:i+6], 16, 32)
				if err == nil {
					sb.WriteRune(rune(v))
					i += 5
					continue
				}
			}
		}
		if s[i] == '\\' && i+1 < len(s) && s[i+1] == 'x' && i+3 < len(s) {
			v, err := strconv.ParseUint(s[i+2:i+4], 16, 8)
			if err == nil {
				sb.WriteByte(byte(v))
				i += 3
				continue
			}
		}
		sb.WriteByte(s[i])
	}
	return sb.String()
}

// containsSymMul reports whether t contains a bvmul (or div/rem) of two non-constants.
func containsSymMul(t *Term, seen map[*Term]bool) bool {
	if seen[t] {
		return false
	}
	seen[t] = true
	switch t.Op {
	case "bvmul", "bvudiv", "bvurem", "bvsdiv", "bvsrem":
		if !t.Args[0].IsConst() && !t.Args[1].IsConst() {
			return true
		}
	}
	for _, a := range t.Args {
		if containsSymMul(a, seen) {
			return true
		}
	}
	return false
}

// OneShotCVC5Int decides sat of the conjunction with cvc5 --solve-bv-as-int=sum.
func OneShotCVC5Int(assertions []*Term, wantModel []*Term, timeoutMs int) (SatResult, map[string]*Term, error) {
	p := newPrinter()
	var refs []string
	for _, a := range assertions {
		refs = append(refs, p.ref(a))
	}
	var mrefs []string
	for _, v := range wantModel {
		mrefs = append(mrefs, p.ref(v))
	}
	var sb strings.Builder
	sb.WriteString("(set-logic ALL)\n(set-option :produce-models true)\n")
	sb.WriteString(p.flush())
	for _, r := range refs {
		sb.WriteString("(assert " + r + ")\n")
	}
	sb.WriteString("(check-sat)\n")
	if len(mrefs) > 0 {
		sb.WriteString("(get-value (" + strings.Join(mrefs, " ") + "))\n")
	}
	cmd := exec.Command("cvc5", "--lang=smt2", "--solve-bv-as-int=sum", fmt.Sprintf("--tlimit=%d", timeoutMs))
	cmd.Stdin = strings.NewReader(sb.String())
	out, _ := cmd.CombinedOutput()
	text := string(out)
	lines := strings.SplitN(strings.TrimSpace(text), "\n", 2)
	if len(lines) == 0 {
		return Unknown, nil, fmt.Errorf("cvc5: no output")
	}
	switch strings.TrimSpace(lines[0]) {
	case "unsat":
		// the get-value that follows an unsat answer is rejected by cvc5; any other error is inconclusive
		rest := ""
		if len(lines) > 1 {
			rest = lines[1]
		}
		rest = strings.ReplaceAll(rest, `(error "Cannot get value unless after a SAT or UNKNOWN response.")`, "")
		if strings.Contains(rest, "(error") {
			return Unknown, nil, fmt.Errorf("cvc5: %s", text)
		}
		return Unsat, nil, nil
	case "sat":
		if len(mrefs) == 0 {
			return Sat, nil, nil
		}
		if len(lines) < 2 {
			return Unknown, nil, fmt.Errorf("cvc5: no model")
		}
		m, err := parseModel(lines[1], wantModel)
		if err != nil {
			return Unknown, nil, err
		}
		return Sat, m, nil
	}
	return Unknown, nil, fmt.Errorf("cvc5: %s", strings.TrimSpace(text))
}
