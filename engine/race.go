package main

// Happens-before data-race detection (vector clocks) for interpreted goroutines. Synchronisation edges come from
// go statements, channel operations, WaitGroups, mutexes and atomics; every load/store of a memory cell and every
// map operation is checked against the last conflicting access. The detector is enabled by verifRaceDetect(true).

import (
	"fmt"

	"golang.org/x/tools/go/ssa"
)

type VC map[int]int

func (v VC) copy() VC {
	n := make(VC, len(v))
	for k, x := range v {
		n[k] = x
	}
	return n
}

func (v VC) join(o VC) {
	for k, x := range o {
		if x > v[k] {
			v[k] = x
		}
	}
}

type accessInfo struct {
	writeT   int
	writeC   int
	writePos string
	reads    VC
	readPos  map[int]string
}

type mutexState struct {
	writer  bool
	readers int
	wvc     VC // released by writers
	rvc     VC // released by readers
}

func (ex *Exec) mutexOf(l *Loc) *mutexState {
	if ex.mutexes == nil {
		ex.mutexes = map[*Loc]*mutexState{}
	}
	m, ok := ex.mutexes[l]
	if !ok {
		m = &mutexState{wvc: VC{}, rvc: VC{}}
		ex.mutexes[l] = m
	}
	return m
}

func (th *Thread) tick() { th.vc[th.id]++ }

func (ex *Exec) racePos(fr *Frame, ins ssa.Instruction) string {
	if fr == nil {
		return "?"
	}
	return ex.position(fr, ins)
}

func (ex *Exec) shadowOf(key interface{}) *accessInfo {
	if ex.shadow == nil {
		ex.shadow = map[interface{}]*accessInfo{}
	}
	a, ok := ex.shadow[key]
	if !ok {
		a = &accessInfo{writeT: -1, reads: VC{}, readPos: map[int]string{}}
		ex.shadow[key] = a
	}
	return a
}

func (ex *Exec) reportRace(kind, here, there string) {
	id := "data-race@" + here
	_, m := ex.check(nil, true)
	ex.H.AssertIDs[id]++
	ex.recordFinding(id, "race", fmt.Sprintf("%s: access at %s is not ordered with the access at %s", kind, here, there), m, "")
	if f, ok := ex.H.Findings[id]; ok {
		f.orderDependent = true
	}
	ex.abort(abPathEnd, "data race")
}

func (ex *Exec) raceRead(key interface{}, fr *Frame, ins ssa.Instruction) {
	if !ex.race || ex.cur == nil || ex.lenient > 0 {
		return
	}
	th := ex.cur
	a := ex.shadowOf(key)
	if a.writeT >= 0 && a.writeT != th.id && a.writeC > th.vc[a.writeT] {
		ex.reportRace("write/read race", ex.racePos(fr, ins), a.writePos)
	}
	a.reads[th.id] = th.vc[th.id]
	a.readPos[th.id] = ex.racePos(fr, ins)
}

func (ex *Exec) raceWrite(key interface{}, fr *Frame, ins ssa.Instruction) {
	if !ex.race || ex.cur == nil || ex.lenient > 0 {
		return
	}
	th := ex.cur
	a := ex.shadowOf(key)
	here := ex.racePos(fr, ins)
	if a.writeT >= 0 && a.writeT != th.id && a.writeC > th.vc[a.writeT] {
		ex.reportRace("write/write race", here, a.writePos)
	}
	for u, c := range a.reads {
		if u != th.id && c > th.vc[u] {
			ex.reportRace("read/write race", here, a.readPos[u])
		}
	}
	a.writeT, a.writeC, a.writePos = th.id, th.vc[th.id], here
	a.reads = VC{}
	a.readPos = map[int]string{}
}

// raceReadValue / raceWriteValue cover the cells nested in an aggregate that is loaded or stored as a whole.
func (ex *Exec) raceAggregate(v Value, write bool, fr *Frame, ins ssa.Instruction) {
	if !ex.race {
		return
	}
	switch x := v.(type) {
	case *StructV:
		for _, f := range x.F {
			if write {
				ex.raceWrite(f, fr, ins)
			} else {
				ex.raceRead(f, fr, ins)
			}
			ex.raceAggregate(f.V, write, fr, ins)
		}
	case *ArrayV:
		for _, f := range x.E {
			if write {
				ex.raceWrite(f, fr, ins)
			} else {
				ex.raceRead(f, fr, ins)
			}
			ex.raceAggregate(f.V, write, fr, ins)
		}
	}
}

// atomicSync makes an atomic operation on l an acquire-release synchronisation.
func (ex *Exec) atomicSync(l *Loc) {
	if !ex.race || ex.cur == nil {
		return
	}
	if ex.atomicVC == nil {
		ex.atomicVC = map[*Loc]VC{}
	}
	th := ex.cur
	if v, ok := ex.atomicVC[l]; ok {
		th.vc.join(v)
	}
	ex.atomicVC[l] = th.vc.copy()
	th.tick()
}
