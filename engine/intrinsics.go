package main

import (
	"fmt"
	"go/types"
	"reflect"
	"regexp"
	"sort"
	"strconv"
	"strings"

	"golang.org/x/tools/go/ssa"
)

type intrinsic func(ex *Exec, fn *ssa.Function, args []Value) Value

var intrinsics map[string]intrinsic

func init() {
	intrinsics = map[string]intrinsic{}
	// --- logging / formatting: no-ops
	for _, m := range []string{"Tracef", "Debugf", "Infof", "Warnf", "Errorf"} {
		intrinsics["(*"+repoModule+"/analysis/config.LogGroup)."+m] = func(ex *Exec, fn *ssa.Function, args []Value) Value { return nil }
	}
	// --- pure functions on concrete data: pass through to the host implementation
	native := map[string]interface{}{
		"strconv.Itoa":        strconv.Itoa,
		"strconv.Quote":       strconv.Quote,
		"strconv.FormatInt":   strconv.FormatInt,
		"strings.HasPrefix":   strings.HasPrefix,
		"strings.HasSuffix":   strings.HasSuffix,
		"strings.Contains":    strings.Contains,
		"strings.Index":       strings.Index,
		"strings.IndexByte":   strings.IndexByte,
		"strings.LastIndex":   strings.LastIndex,
		"strings.Count":       strings.Count,
		"strings.Repeat":      strings.Repeat,
		"strings.Replace":     strings.Replace,
		"strings.ReplaceAll":  strings.ReplaceAll,
		"strings.Split":       strings.Split,
		"strings.SplitN":      strings.SplitN,
		"strings.Join":        strings.Join,
		"strings.TrimSpace":   strings.TrimSpace,
		"strings.TrimPrefix":  strings.TrimPrefix,
		"strings.TrimSuffix":  strings.TrimSuffix,
		"strings.TrimLeft":    strings.TrimLeft,
		"strings.TrimRight":   strings.TrimRight,
		"strings.Trim":        strings.Trim,
		"strings.ToLower":     strings.ToLower,
		"strings.ToUpper":     strings.ToUpper,
		"strings.EqualFold":   strings.EqualFold,
		"strings.Fields":      strings.Fields,
		"strings.ContainsAny": strings.ContainsAny,
		"strings.Compare":     strings.Compare,
		"path.Base":           nil,
	}
	for name, f := range native {
		if f == nil {
			continue
		}
		intrinsics[name] = nativeIntrinsic(name, f)
	}
	intrinsics["strings.CutPrefix"] = func(ex *Exec, fn *ssa.Function, args []Value) Value {
		s, p := ex.concStr(args[0], "CutPrefix"), ex.concStr(args[1], "CutPrefix")
		after, found := strings.CutPrefix(s, p)
		return TupleV{StrConst(after), BoolConst(found)}
	}
	intrinsics["strings.CutSuffix"] = func(ex *Exec, fn *ssa.Function, args []Value) Value {
		s, p := ex.concStr(args[0], "CutSuffix"), ex.concStr(args[1], "CutSuffix")
		before, found := strings.CutSuffix(s, p)
		return TupleV{StrConst(before), BoolConst(found)}
	}
	intrinsics["strings.Cut"] = func(ex *Exec, fn *ssa.Function, args []Value) Value {
		s, p := ex.concStr(args[0], "Cut"), ex.concStr(args[1], "Cut")
		a, b, found := strings.Cut(s, p)
		return TupleV{StrConst(a), StrConst(b), BoolConst(found)}
	}
	// --- fmt
	intrinsics["fmt.Sprintf"] = func(ex *Exec, fn *ssa.Function, args []Value) Value {
		return StrConst(ex.sprintf(args[0], args[1]))
	}
	intrinsics["fmt.Errorf"] = func(ex *Exec, fn *ssa.Function, args []Value) Value {
		msg := ex.sprintf(args[0], args[1])
		return ex.makeError(msg)
	}
	intrinsics["errors.New"] = func(ex *Exec, fn *ssa.Function, args []Value) Value {
		return ex.makeError(ex.concStr(args[0], "errors.New"))
	}
	intrinsics["fmt.Sprint"] = func(ex *Exec, fn *ssa.Function, args []Value) Value {
		sv := args[0].(SliceV)
		var parts []interface{}
		for k := 0; k < sv.Len; k++ {
			parts = append(parts, ex.toFmtArg(sv.A.E[sv.Off+k].V))
		}
		return StrConst(fmt.Sprint(parts...))
	}
	// fmt.Fprint* : formatted text is written through the writer's own Write method (bytes.Buffer, strings.Builder,
	// user writers); writes to an *os.File (stdout / stderr / log files) are dropped.
	fprint := func(kind int) intrinsic {
		return func(ex *Exec, fn *ssa.Function, args []Value) Value {
			w, ok := args[0].(IfaceV)
			if !ok || w.T == nil {
				ex.unsupported("fmt.Fprint* to a nil writer")
			}
			if strings.HasSuffix(w.T.String(), "os.File") {
				return TupleV{BVConst(0, 64), IfaceV{}}
			}
			var out string
			if kind == 0 {
				out = ex.sprintf(args[1], args[2])
			} else {
				sv := args[1].(SliceV)
				var parts []interface{}
				for k := 0; k < sv.Len; k++ {
					parts = append(parts, ex.toFmtArg(sv.A.E[sv.Off+k].V))
				}
				if kind == 1 {
					out = fmt.Sprint(parts...)
				} else {
					out = fmt.Sprintln(parts...)
				}
			}
			mset := ex.H.Prog.SSA.MethodSets.MethodSet(w.T)
			var wr *ssa.Function
			for i := 0; i < mset.Len(); i++ {
				if sel := mset.At(i); sel.Obj().Name() == "Write" {
					wr = ex.H.Prog.lookupMethod(w.T, sel.Obj().(*types.Func))
				}
			}
			if wr == nil {
				ex.unsupported("fmt.Fprint*: writer %s has no Write method", w.T)
			}
			locs := make([]*Loc, len(out))
			for k := 0; k < len(out); k++ {
				locs[k] = &Loc{V: BVConst(uint64(out[k]), 8)}
			}
			r := ex.call(wr, []Value{w.V, SliceV{A: &ArrayV{E: locs}, Len: len(locs), Cap: len(locs)}}, nil)
			if tv, ok := r.(TupleV); ok {
				return tv
			}
			return TupleV{BVConst(uint64(len(out)), 64), IfaceV{}}
		}
	}
	intrinsics["fmt.Fprintf"] = fprint(0)
	intrinsics["fmt.Fprint"] = fprint(1)
	intrinsics["fmt.Fprintln"] = fprint(2)
	// standard output is captured (verifCaptureStdout) rather than printed
	intrinsics["fmt.Printf"] = func(ex *Exec, fn *ssa.Function, args []Value) Value {
		out := ex.sprintf(args[0], args[1])
		ex.stdout += out
		return TupleV{BVConst(uint64(len(out)), 64), IfaceV{}}
	}
	printLn := func(newline bool) intrinsic {
		return func(ex *Exec, fn *ssa.Function, args []Value) Value {
			sv := args[0].(SliceV)
			var parts []interface{}
			for k := 0; k < sv.Len; k++ {
				parts = append(parts, ex.toFmtArg(sv.A.E[sv.Off+k].V))
			}
			out := fmt.Sprint(parts...)
			if newline {
				out = fmt.Sprintln(parts...)
			}
			ex.stdout += out
			return TupleV{BVConst(uint64(len(out)), 64), IfaceV{}}
		}
	}
	intrinsics["fmt.Println"] = printLn(true)
	intrinsics["fmt.Print"] = printLn(false)
	// --- sort
	intrinsics["sort.Slice"] = sortSliceIntrinsic
	intrinsics["sort.SliceStable"] = sortSliceIntrinsic
	intrinsics["sort.Strings"] = func(ex *Exec, fn *ssa.Function, args []Value) Value {
		sv := args[0].(SliceV)
		strs := make([]string, sv.Len)
		for k := range strs {
			strs[k] = ex.concStr(sv.A.E[sv.Off+k].V, "sort.Strings")
		}
		sort.Strings(strs)
		for k := range strs {
			sv.A.E[sv.Off+k].V = StrConst(strs[k])
		}
		return nil
	}
	// typeutil.Hasher.hashPtr hashes a pointer identity via reflect; any constant is a valid hash (buckets compare
	// with types.Identical)
	intrinsics["(golang.org/x/tools/go/types/typeutil.Hasher).hashPtr"] = func(ex *Exec, fn *ssa.Function, args []Value) Value {
		return BVConst(7919, 32)
	}
	// --- reflect
	intrinsics["reflect.DeepEqual"] = func(ex *Exec, fn *ssa.Function, args []Value) Value {
		return ex.deepEqual(args[0], args[1], 0)
	}
	// --- sync/atomic primitives
	atomicLoad := func(ex *Exec, fn *ssa.Function, args []Value) Value {
		ex.atomicSync(ex.derefArg(args[0], fn))
		return ex.derefArg(args[0], fn).V
	}
	atomicStore := func(ex *Exec, fn *ssa.Function, args []Value) Value {
		ex.atomicSync(ex.derefArg(args[0], fn))
		ex.derefArg(args[0], fn).V = args[1]
		return nil
	}
	atomicAdd := func(ex *Exec, fn *ssa.Function, args []Value) Value {
		l := ex.derefArg(args[0], fn)
		ex.atomicSync(l)
		l.V = BVBin("bvadd", l.V.(*Term), args[1].(*Term))
		return l.V
	}
	atomicSwap := func(ex *Exec, fn *ssa.Function, args []Value) Value {
		l := ex.derefArg(args[0], fn)
		ex.atomicSync(l)
		old := l.V
		l.V = args[1]
		return old
	}
	atomicCAS := func(ex *Exec, fn *ssa.Function, args []Value) Value {
		l := ex.derefArg(args[0], fn)
		ex.atomicSync(l)
		eq := ex.valuesEqual(l.V, args[1])
		if ex.branch(eq, "cas") {
			l.V = args[2]
			return termTrue
		}
		return termFalse
	}
	for _, t := range []string{"Int32", "Int64", "Uint32", "Uint64", "Uintptr", "Pointer"} {
		intrinsics["sync/atomic.Load"+t] = atomicLoad
		intrinsics["sync/atomic.Store"+t] = atomicStore
		intrinsics["sync/atomic.Add"+t] = atomicAdd
		intrinsics["sync/atomic.Swap"+t] = atomicSwap
		intrinsics["sync/atomic.CompareAndSwap"+t] = atomicCAS
		intrinsics["internal/runtime/atomic.Load"+t] = atomicLoad
	}
	// --- sync.WaitGroup
	intrinsics["(*sync.WaitGroup).Add"] = func(ex *Exec, fn *ssa.Function, args []Value) Value {
		p := args[0].(Pointer)
		d := args[1].(*Term)
		if !d.IsConst() {
			dv := ex.concretize(to64(d), -8, 8, "WaitGroup.Add delta")
			ex.syncPoint(&syncOp{kind: opWgAdd, wg: ex.wgOf(p.L), delta: dv})
			return nil
		}
		ex.syncPoint(&syncOp{kind: opWgAdd, wg: ex.wgOf(p.L), delta: int(d.Signed())})
		return nil
	}
	intrinsics["(*sync.WaitGroup).Done"] = func(ex *Exec, fn *ssa.Function, args []Value) Value {
		p := args[0].(Pointer)
		ex.syncPoint(&syncOp{kind: opWgAdd, wg: ex.wgOf(p.L), delta: -1})
		return nil
	}
	intrinsics["(*sync.WaitGroup).Wait"] = func(ex *Exec, fn *ssa.Function, args []Value) Value {
		p := args[0].(Pointer)
		ex.syncPoint(&syncOp{kind: opWgWait, wg: ex.wgOf(p.L)})
		return nil
	}
	// --- sync.Mutex / RWMutex: blocking semantics in the scheduler (a scheduling point per operation)
	mutexOp := func(kind opKind) intrinsic {
		return func(ex *Exec, fn *ssa.Function, args []Value) Value {
			p, ok := args[0].(Pointer)
			if !ok || p.L == nil {
				ex.unsupported("%s on nil mutex", fn.Name())
			}
			ex.syncPoint(&syncOp{kind: kind, mu: ex.mutexOf(p.L)})
			return nil
		}
	}
	intrinsics["(*sync.Mutex).Lock"] = mutexOp(opLock)
	intrinsics["(*sync.Mutex).Unlock"] = mutexOp(opUnlock)
	intrinsics["(*sync.RWMutex).Lock"] = mutexOp(opLock)
	intrinsics["(*sync.RWMutex).Unlock"] = mutexOp(opUnlock)
	intrinsics["(*sync.RWMutex).RLock"] = mutexOp(opRLock)
	intrinsics["(*sync.RWMutex).RUnlock"] = mutexOp(opRUnlock)
	// --- time
	intrinsics["time.Now"] = func(ex *Exec, fn *ssa.Function, args []Value) Value {
		return zero(fn.Signature.Results().At(0).Type())
	}
	intrinsics["time.Since"] = func(ex *Exec, fn *ssa.Function, args []Value) Value { return BVConst(0, 64) }
	intrinsics["(time.Duration).Seconds"] = func(ex *Exec, fn *ssa.Function, args []Value) Value { return FloatV(0) }
	intrinsics["(time.Time).Sub"] = func(ex *Exec, fn *ssa.Function, args []Value) Value { return BVConst(0, 64) }
	// --- regexp
	intrinsics["regexp.Compile"] = func(ex *Exec, fn *ssa.Function, args []Value) Value {
		pt := fn.Signature.Results().At(0).Type()
		s := args[0].(*Term)
		if !s.IsConst() {
			// symbolic pattern: the compiled regexp remembers its (symbolic) source text
			return TupleV{Pointer{&Loc{V: &NativeV{&symRegexp{pattern: s}}}}, IfaceV{}}
		}
		r, err := regexp.Compile(s.S)
		if err != nil {
			return TupleV{zero(pt), ex.makeError(err.Error())}
		}
		return TupleV{Pointer{&Loc{V: &NativeV{&symRegexp{pattern: s, re: r}}}}, IfaceV{}}
	}
	intrinsics["regexp.MustCompile"] = func(ex *Exec, fn *ssa.Function, args []Value) Value {
		s := args[0].(*Term)
		if !s.IsConst() {
			return Pointer{&Loc{V: &NativeV{&symRegexp{pattern: s}}}}
		}
		r, err := regexp.Compile(s.S)
		if err != nil {
			ex.unsupported("regexp.MustCompile(%q) panics", s.S)
		}
		return Pointer{&Loc{V: &NativeV{&symRegexp{pattern: s, re: r}}}}
	}
	intrinsics["(*regexp.Regexp).MatchString"] = func(ex *Exec, fn *ssa.Function, args []Value) Value {
		p := args[0].(Pointer)
		if p.L == nil {
			ex.unsupported("MatchString on nil regexp")
		}
		sr := p.L.V.(*NativeV).X.(*symRegexp)
		subj := args[1].(*Term)
		if sr.re != nil && subj.IsConst() {
			return BoolConst(sr.re.MatchString(subj.S))
		}
		// Symbolic patterns range over lowercase literals (recorded as an assumption): for such a pattern the
		// unanchored regular-expression match is exactly the substring relation, which is natively replayable.
		if !sr.pattern.IsConst() {
			ex.H.Assumes["symbolic regular expressions range over lowercase-letter literals (match = substring)"] = true
			lit := StrIsLowerLiteral(sr.pattern)
			ex.addPC(lit)
			return StrContains(subj, sr.pattern)
		}
		if isLowerLiteral(sr.pattern.S) {
			return StrContains(subj, sr.pattern)
		}
		ex.unsupported("MatchString of a non-literal pattern on a symbolic subject")
		return nil
	}
	intrinsics["(*regexp.Regexp).String"] = func(ex *Exec, fn *ssa.Function, args []Value) Value {
		p := args[0].(Pointer)
		return p.L.V.(*NativeV).X.(*symRegexp).pattern
	}
	// --- os / misc
	intrinsics["os.Getenv"] = func(ex *Exec, fn *ssa.Function, args []Value) Value { return StrConst("") }
	// --- strings.Builder (its implementation uses unsafe): contents kept in a side table keyed by the receiver
	sbKey := func(ex *Exec, args []Value) interface{} {
		p, ok := args[0].(Pointer)
		if !ok || p.L == nil {
			ex.unsupported("strings.Builder method on nil receiver")
		}
		return [2]interface{}{"strings.Builder", p.L}
	}
	sbGet := func(ex *Exec, k interface{}) string {
		if s, ok := ex.sideTable[k].(string); ok {
			return s
		}
		return ""
	}
	intrinsics["(*strings.Builder).WriteString"] = func(ex *Exec, fn *ssa.Function, args []Value) Value {
		k := sbKey(ex, args)
		s := ex.concStr(args[1], "Builder.WriteString")
		ex.sideTable[k] = sbGet(ex, k) + s
		return TupleV{BVConst(uint64(len(s)), 64), IfaceV{}}
	}
	intrinsics["(*strings.Builder).WriteByte"] = func(ex *Exec, fn *ssa.Function, args []Value) Value {
		k := sbKey(ex, args)
		ex.sideTable[k] = sbGet(ex, k) + string([]byte{byte(ex.concInt(args[1], "Builder.WriteByte"))})
		return IfaceV{}
	}
	intrinsics["(*strings.Builder).WriteRune"] = func(ex *Exec, fn *ssa.Function, args []Value) Value {
		k := sbKey(ex, args)
		r := string(rune(ex.concInt(args[1], "Builder.WriteRune")))
		ex.sideTable[k] = sbGet(ex, k) + r
		return TupleV{BVConst(uint64(len(r)), 64), IfaceV{}}
	}
	intrinsics["(*strings.Builder).Write"] = func(ex *Exec, fn *ssa.Function, args []Value) Value {
		k := sbKey(ex, args)
		sv := args[1].(SliceV)
		var bs []byte
		for i := 0; i < sv.Len; i++ {
			bs = append(bs, byte(ex.concInt(sv.A.E[sv.Off+i].V, "Builder.Write")))
		}
		ex.sideTable[k] = sbGet(ex, k) + string(bs)
		return TupleV{BVConst(uint64(len(bs)), 64), IfaceV{}}
	}
	intrinsics["(*strings.Builder).String"] = func(ex *Exec, fn *ssa.Function, args []Value) Value {
		return StrConst(sbGet(ex, sbKey(ex, args)))
	}
	intrinsics["(*strings.Builder).Len"] = func(ex *Exec, fn *ssa.Function, args []Value) Value {
		return BVConst(uint64(len(sbGet(ex, sbKey(ex, args)))), 64)
	}
	intrinsics["(*strings.Builder).Reset"] = func(ex *Exec, fn *ssa.Function, args []Value) Value {
		ex.sideTable[sbKey(ex, args)] = ""
		return nil
	}
	intrinsics["(*strings.Builder).Grow"] = func(ex *Exec, fn *ssa.Function, args []Value) Value { return nil }
	intrinsics["golang.org/x/term.IsTerminal"] = func(ex *Exec, fn *ssa.Function, args []Value) Value { return termFalse }
	intrinsics["runtime.GOROOT"] = func(ex *Exec, fn *ssa.Function, args []Value) Value { return StrConst("/symgo-no-goroot") }
	intrinsics["runtime.GC"] = func(ex *Exec, fn *ssa.Function, args []Value) Value { return nil }
}

func isLowerLiteral(s string) bool {
	for _, r := range s {
		if r < 'a' || r > 'z' {
			return false
		}
	}
	return true
}

type symRegexp struct {
	pattern *Term
	re      *regexp.Regexp
}

func lookupIntrinsic(fn *ssa.Function, name string) intrinsic {
	if strings.HasPrefix(fn.Name(), "verif") {
		if f, ok := verifIntrinsics[fn.Name()]; ok {
			return f
		}
	}
	if f, ok := intrinsics[name]; ok {
		return f
	}
	if o := fn.Origin(); o != nil {
		if f, ok := intrinsics[o.String()]; ok {
			return f
		}
	}
	return nil
}

func (ex *Exec) concStr(v Value, what string) string {
	t, ok := v.(*Term)
	if !ok || t.Sort.K != KString {
		ex.unsupported("%s: expected string, got %T", what, v)
	}
	if !t.IsConst() {
		ex.unsupported("%s on symbolic string", what)
	}
	return t.S
}

func (ex *Exec) concInt(v Value, what string) int64 {
	t, ok := v.(*Term)
	if !ok || t.Sort.K != KBV {
		ex.unsupported("%s: expected int, got %T", what, v)
	}
	if !t.IsConst() {
		ex.unsupported("%s on symbolic integer", what)
	}
	return t.Signed()
}

func (ex *Exec) derefArg(v Value, fn *ssa.Function) *Loc {
	p, ok := v.(Pointer)
	if !ok || p.L == nil {
		ex.unsupported("%s: nil or non-pointer argument", fn.Name())
	}
	return p.L
}

// makeError builds an error value backed by errors.errorString.
func (ex *Exec) makeError(msg string) Value {
	pkg := ex.H.Prog.Package("errors")
	if pkg != nil {
		if tn := pkg.Type("errorString"); tn != nil {
			st := &StructV{F: []*Loc{{V: StrConst(msg)}}}
			return IfaceV{T: types.NewPointer(tn.Type()), V: Pointer{&Loc{V: st}}}
		}
	}
	ex.unsupported("cannot build error value")
	return nil
}

// nativeIntrinsic wraps a host function over strings/ints/bools/[]string.
func nativeIntrinsic(name string, f interface{}) intrinsic {
	fv := reflect.ValueOf(f)
	ft := fv.Type()
	return func(ex *Exec, fn *ssa.Function, args []Value) Value {
		in := make([]reflect.Value, len(args))
		for i, a := range args {
			in[i] = ex.toReflect(a, ft.In(i), name)
		}
		out := fv.Call(in)
		switch len(out) {
		case 0:
			return nil
		case 1:
			return ex.fromReflect(out[0], name)
		}
		tv := make(TupleV, len(out))
		for i := range out {
			tv[i] = ex.fromReflect(out[i], name)
		}
		return tv
	}
}

func (ex *Exec) toReflect(v Value, t reflect.Type, what string) reflect.Value {
	switch t.Kind() {
	case reflect.String:
		return reflect.ValueOf(ex.concStr(v, what))
	case reflect.Int, reflect.Int64, reflect.Int32, reflect.Uint8:
		return reflect.ValueOf(ex.concInt(v, what)).Convert(t)
	case reflect.Bool:
		tt := v.(*Term)
		if !tt.IsConst() {
			ex.unsupported("%s on symbolic bool", what)
		}
		return reflect.ValueOf(tt.B)
	case reflect.Slice:
		sv := v.(SliceV)
		out := reflect.MakeSlice(t, sv.Len, sv.Len)
		for k := 0; k < sv.Len; k++ {
			out.Index(k).Set(ex.toReflect(sv.A.E[sv.Off+k].V, t.Elem(), what))
		}
		return out
	}
	ex.unsupported("%s: cannot pass %T natively", what, v)
	return reflect.Value{}
}

func (ex *Exec) fromReflect(rv reflect.Value, what string) Value {
	switch rv.Kind() {
	case reflect.String:
		return StrConst(rv.String())
	case reflect.Int, reflect.Int64:
		return BVConst(uint64(rv.Int()), 64)
	case reflect.Int32:
		return BVConst(uint64(rv.Int()), 32)
	case reflect.Uint8:
		return BVConst(rv.Uint(), 8)
	case reflect.Bool:
		return BoolConst(rv.Bool())
	case reflect.Slice:
		n := rv.Len()
		arr := &ArrayV{E: make([]*Loc, n)}
		for k := 0; k < n; k++ {
			arr.E[k] = &Loc{V: ex.fromReflect(rv.Index(k), what)}
		}
		if rv.IsNil() {
			return SliceV{}
		}
		return SliceV{A: arr, Len: n, Cap: n}
	}
	ex.unsupported("%s: cannot convert native result %s", what, rv.Kind())
	return nil
}

// toFmtArg converts an interpreter value to something fmt can print.
func (ex *Exec) toFmtArg(v Value) interface{} {
	switch x := v.(type) {
	case IfaceV:
		if x.T == nil {
			return nil
		}
		// Stringer / error support
		if s, ok := ex.tryStringMethod(x); ok {
			return s
		}
		return ex.toFmtArgTyped(x.V, x.T)
	}
	return ex.toFmtArgTyped(v, nil)
}

type fmtString string

func (s fmtString) String() string { return string(s) }

func (ex *Exec) tryStringMethod(iv IfaceV) (interface{}, bool) {
	for _, mname := range []string{"Error", "String"} {
		mset := ex.H.Prog.SSA.MethodSets.MethodSet(iv.T)
		for i := 0; i < mset.Len(); i++ {
			sel := mset.At(i)
			if sel.Obj().Name() != mname {
				continue
			}
			sig := sel.Type().(*types.Signature)
			if sig.Params().Len() != 0 || sig.Results().Len() != 1 || !isString(sig.Results().At(0).Type()) {
				continue
			}
			fn := ex.H.Prog.lookupMethod(iv.T, sel.Obj().(*types.Func))
			if fn == nil {
				continue
			}
			if p, isP := iv.V.(Pointer); isP && p.L == nil {
				return "<nil>", true
			}
			r := ex.call(fn, []Value{iv.V}, nil)
			if t, ok := r.(*Term); ok && t.IsConst() {
				return fmtString(t.S), true
			}
			return fmtString("<sym>"), true
		}
	}
	return nil, false
}

func (ex *Exec) toFmtArgTyped(v Value, t types.Type) interface{} {
	switch x := v.(type) {
	case *Term:
		if !x.IsConst() {
			return "<sym>"
		}
		switch x.Sort.K {
		case KBool:
			return x.B
		case KString:
			return x.S
		case KBV:
			if t != nil {
				if _, signed, ok := bvInfo(t); ok && !signed {
					return x.BV
				}
			}
			return x.Signed()
		}
	case FloatV:
		return float64(x)
	case Pointer:
		if x.L == nil {
			return nil
		}
		return fmt.Sprintf("%p", x.L)
	case nil:
		return nil
	}
	return showValue(v)
}

func (ex *Exec) sprintf(format Value, rest Value) string {
	f := ex.concStr(format, "fmt.Sprintf format")
	sv := rest.(SliceV)
	var parts []interface{}
	verbs := fmtVerbs(f)
	for k := 0; k < sv.Len; k++ {
		v := sv.A.E[sv.Off+k].V
		if k < len(verbs) && !strings.ContainsRune("vsq", verbs[k]) {
			// fmt only consults Error / String for the verbs %v %s %q
			if iv, ok := v.(IfaceV); ok && iv.T != nil {
				parts = append(parts, ex.toFmtArgTyped(iv.V, iv.T))
				continue
			}
		}
		parts = append(parts, ex.toFmtArg(v))
	}
	return fmt.Sprintf(f, parts...)
}

// fmtVerbs lists the verb consuming each successive operand of a format string (explicit argument indexes and
// '*' widths are not modelled: the list is cut there and the remaining operands take the default route).
func fmtVerbs(f string) []rune {
	var out []rune
	rs := []rune(f)
	for i := 0; i < len(rs); i++ {
		if rs[i] != '%' {
			continue
		}
		i++
		for i < len(rs) && strings.ContainsRune("+-# 0123456789.", rs[i]) {
			i++
		}
		if i >= len(rs) {
			break
		}
		if rs[i] == '%' {
			continue
		}
		if rs[i] == '[' || rs[i] == '*' {
			return out
		}
		out = append(out, rs[i])
	}
	return out
}

func sortSliceIntrinsic(ex *Exec, fn *ssa.Function, args []Value) Value {
	iv := args[0].(IfaceV)
	sv, ok := iv.V.(SliceV)
	if !ok {
		ex.unsupported("sort.Slice on %T", iv.V)
	}
	less := args[1].(*FuncV)
	n := sv.Len
	// insertion sort using the interpreted less closure (stable; comparison outcomes may fork)
	for i := 1; i < n; i++ {
		for j := i; j > 0; j-- {
			r := ex.callValue(less, []Value{BVConst(uint64(j), 64), BVConst(uint64(j-1), 64)}).(*Term)
			if !ex.branch(r, "sort.less") {
				break
			}
			a, b := sv.A.E[sv.Off+j], sv.A.E[sv.Off+j-1]
			a.V, b.V = b.V, a.V
		}
	}
	return nil
}

// deepEqual models reflect.DeepEqual on interpreter values.
func (ex *Exec) deepEqual(a, b Value, depth int) *Term {
	if depth > 40 {
		ex.unsupported("DeepEqual recursion too deep")
	}
	switch x := a.(type) {
	case IfaceV:
		y, ok := b.(IfaceV)
		if !ok {
			return termFalse
		}
		if x.T == nil || y.T == nil {
			return BoolConst(x.T == nil && y.T == nil)
		}
		if !types.Identical(x.T, y.T) {
			return termFalse
		}
		return ex.deepEqual(x.V, y.V, depth+1)
	case *Term:
		y, ok := b.(*Term)
		if !ok || x.Sort != y.Sort {
			return termFalse
		}
		return Eq(x, y)
	case FloatV:
		y, ok := b.(FloatV)
		return BoolConst(ok && x == y)
	case Pointer:
		y, ok := b.(Pointer)
		if !ok {
			return termFalse
		}
		if x.L == nil || y.L == nil {
			return BoolConst(x.L == y.L)
		}
		if x.L == y.L {
			return termTrue
		}
		return ex.deepEqual(x.L.V, y.L.V, depth+1)
	case *StructV:
		y, ok := b.(*StructV)
		if !ok || len(x.F) != len(y.F) {
			return termFalse
		}
		r := termTrue
		for i := range x.F {
			r = And(r, ex.deepEqual(x.F[i].V, y.F[i].V, depth+1))
			if r.IsConst() && !r.B {
				return r
			}
		}
		return r
	case *ArrayV:
		y, ok := b.(*ArrayV)
		if !ok || len(x.E) != len(y.E) {
			return termFalse
		}
		r := termTrue
		for i := range x.E {
			r = And(r, ex.deepEqual(x.E[i].V, y.E[i].V, depth+1))
		}
		return r
	case SliceV:
		y, ok := b.(SliceV)
		if !ok {
			return termFalse
		}
		if (x.A == nil) != (y.A == nil) {
			return termFalse
		}
		if x.Len != y.Len {
			return termFalse
		}
		r := termTrue
		for i := 0; i < x.Len; i++ {
			r = And(r, ex.deepEqual(x.A.E[x.Off+i].V, y.A.E[y.Off+i].V, depth+1))
		}
		return r
	case *MapV:
		y, ok := b.(*MapV)
		if !ok {
			return termFalse
		}
		if (x == nil) != (y == nil) {
			return termFalse
		}
		if x == nil {
			return termTrue
		}
		if x == y {
			return termTrue
		}
		if len(x.Keys) != len(y.Keys) {
			return termFalse
		}
		r := termTrue
		for i, k := range x.Keys {
			// find k in y (keys compared with ==)
			found := termFalse
			var val *Term = termFalse
			for j, k2 := range y.Keys {
				e := ex.valuesEqual(k, k2)
				if e.IsConst() && !e.B {
					continue
				}
				ve := ex.deepEqual(x.Vals[i], y.Vals[j], depth+1)
				val = Ite(And(e, Not(found)), ve, val)
				found = Or(found, e)
			}
			r = And(r, And(found, val))
			if r.IsConst() && !r.B {
				return r
			}
		}
		return r
	case *FuncV:
		y, ok := b.(*FuncV)
		return BoolConst(ok && x == nil && y == nil)
	case *ChanV:
		y, ok := b.(*ChanV)
		return BoolConst(ok && x == y)
	case *NativeV:
		y, ok := b.(*NativeV)
		return BoolConst(ok && x == y)
	case nil:
		return BoolConst(b == nil)
	}
	ex.unsupported("DeepEqual on %T", a)
	return nil
}
