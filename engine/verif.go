package main

// The harness API: functions named verif* declared in the prelude are intercepted here.

import (
	"go/types"

	"golang.org/x/tools/go/ssa"
)

var verifIntrinsics map[string]intrinsic

var currentTier = 0

func init() {
	verifIntrinsics = map[string]intrinsic{
		"verifInt": func(ex *Exec, fn *ssa.Function, args []Value) Value {
			return ex.newInput(ex.concStr(args[0], "verifInt"), "int", SortBV(64))
		},
		"verifIntIn": func(ex *Exec, fn *ssa.Function, args []Value) Value {
			v := ex.newInput(ex.concStr(args[0], "verifIntIn"), "int", SortBV(64))
			lo, hi := args[1].(*Term), args[2].(*Term)
			ex.H.Assumes["input "+ex.concStr(args[0], "")+" in ["+showValue(lo)+","+showValue(hi)+"]"] = true
			// the declared range is recorded without marking the variable as otherwise constrained
			ex.pc = append(ex.pc, And(BVCmp("bvsle", lo, v), BVCmp("bvsle", v, hi)))
			if lo.IsConst() && hi.IsConst() {
				if ex.ranges == nil {
					ex.ranges = map[string][2]int64{}
				}
				ex.ranges[v.S] = [2]int64{lo.Signed(), hi.Signed()}
			}
			return v
		},
		"verifPick": func(ex *Exec, fn *ssa.Function, args []Value) Value {
			// like verifIntIn, but the value is made concrete at once (one path per value)
			v := verifIntrinsics["verifIntIn"](ex, fn, args).(*Term)
			lo, hi := ex.concInt(args[1], "verifPick"), ex.concInt(args[2], "verifPick")
			k := ex.concretize(v, int(lo), int(hi), "pick")
			return BVConst(uint64(int64(k)), 64)
		},
		"verifI32": func(ex *Exec, fn *ssa.Function, args []Value) Value {
			return ex.newInput(ex.concStr(args[0], "verifI32"), "int", SortBV(32))
		},
		"verifU32": func(ex *Exec, fn *ssa.Function, args []Value) Value {
			return ex.newInput(ex.concStr(args[0], "verifU32"), "u32", SortBV(32))
		},
		"verifU8": func(ex *Exec, fn *ssa.Function, args []Value) Value {
			return ex.newInput(ex.concStr(args[0], "verifU8"), "u8", SortBV(8))
		},
		"verifBool": func(ex *Exec, fn *ssa.Function, args []Value) Value {
			return ex.newInput(ex.concStr(args[0], "verifBool"), "bool", SortBool)
		},
		"verifString": func(ex *Exec, fn *ssa.Function, args []Value) Value {
			return ex.newInput(ex.concStr(args[0], "verifString"), "string", SortString)
		},
		"verifAssume": func(ex *Exec, fn *ssa.Function, args []Value) Value {
			c := args[0].(*Term)
			if c.IsConst() {
				if !c.B {
					ex.abort(abInfeasible, "assume(false)")
				}
				return nil
			}
			ex.addPC(c)
			r, _ := ex.check(nil, false)
			if r == Unsat {
				ex.abort(abInfeasible, "assumption infeasible")
			}
			return nil
		},
		"verifAssert": func(ex *Exec, fn *ssa.Function, args []Value) Value {
			ex.obligation(ex.concStr(args[0], "verifAssert id"), args[1].(*Term), "assert", "")
			return nil
		},
		"verifAssertKnown": func(ex *Exec, fn *ssa.Function, args []Value) Value {
			ex.obligationKnown(ex.concStr(args[0], "id"), ex.concStr(args[1], "kf"), args[2].(*Term), args[3].(*Term))
			return nil
		},
		"verifReach": func(ex *Exec, fn *ssa.Function, args []Value) Value {
			ex.H.Reached[ex.concStr(args[0], "verifReach")] = true
			return nil
		},
		"verifContains": func(ex *Exec, fn *ssa.Function, args []Value) Value {
			return StrContains(args[0].(*Term), args[1].(*Term))
		},
		"verifAnd": func(ex *Exec, fn *ssa.Function, args []Value) Value {
			return And(args[0].(*Term), args[1].(*Term))
		},
		"verifOr": func(ex *Exec, fn *ssa.Function, args []Value) Value {
			return Or(args[0].(*Term), args[1].(*Term))
		},
		"verifImplies": func(ex *Exec, fn *ssa.Function, args []Value) Value {
			return Implies(args[0].(*Term), args[1].(*Term))
		},
		"verifIff": func(ex *Exec, fn *ssa.Function, args []Value) Value {
			return Eq(args[0].(*Term), args[1].(*Term))
		},
		"verifIteInt": func(ex *Exec, fn *ssa.Function, args []Value) Value {
			return Ite(args[0].(*Term), args[1].(*Term), args[2].(*Term))
		},
		"verifMapOrder": func(ex *Exec, fn *ssa.Function, args []Value) Value {
			c := args[0].(*Term)
			ex.mapOrder = c.IsConst() && c.B
			return nil
		},
		"verifCaptureStdout": func(ex *Exec, fn *ssa.Function, args []Value) Value {
			saved := ex.stdout
			ex.stdout = ""
			ex.callValue(args[0].(*FuncV), nil)
			out := ex.stdout
			ex.stdout = saved
			return StrConst(out)
		},
		// verifOneSchedule(true): from here on the scheduler runs the first enabled transition instead of forking over
		// every enabled one (used where the goroutines are the analyzer's own worker pool, whose schedules are the
		// subject of C06 / C20, and the property under check is about the analysed program)
		"verifOneSchedule": func(ex *Exec, fn *ssa.Function, args []Value) Value {
			c := args[0].(*Term)
			ex.oneSched = c.IsConst() && c.B
			return nil
		},
		// verifSchedulePrefix(k): only the first k scheduling choice points of the path (from here on) fork over every
		// enabled transition; later ones run the first enabled transition (bounded schedule exploration, stated bound)
		"verifSchedulePrefix": func(ex *Exec, fn *ssa.Function, args []Value) Value {
			ex.schedPrefix = int(ex.concInt(args[0], "verifSchedulePrefix"))
			ex.schedPrefixOn = true
			return nil
		},
		"verifRaceDetect": func(ex *Exec, fn *ssa.Function, args []Value) Value {
			c := args[0].(*Term)
			ex.race = c.IsConst() && c.B
			return nil
		},
		"verifTier": func(ex *Exec, fn *ssa.Function, args []Value) Value {
			return BVConst(uint64(currentTier), 64)
		},
		"verifTerminatesWithin": func(ex *Exec, fn *ssa.Function, args []Value) Value {
			ex.termID = ex.concStr(args[0], "verifTerminatesWithin")
			ex.termLimit = ex.steps + ex.concInt(args[1], "verifTerminatesWithin")
			ex.H.AssertIDs[ex.termID]++
			return nil
		},
		"verifTerminated": func(ex *Exec, fn *ssa.Function, args []Value) Value {
			ex.termID = ""
			ex.termLimit = 0
			return nil
		},
		"verifSetUnexported": func(ex *Exec, fn *ssa.Function, args []Value) Value {
			iv, ok := args[0].(IfaceV)
			if !ok || iv.T == nil {
				ex.unsupported("verifSetUnexported: bad target")
			}
			p, ok := iv.V.(Pointer)
			if !ok || p.L == nil {
				ex.unsupported("verifSetUnexported: nil target")
			}
			pt, ok := iv.T.Underlying().(*types.Pointer)
			if !ok {
				ex.unsupported("verifSetUnexported: target is not a pointer")
			}
			name := ex.concStr(args[1], "verifSetUnexported field")
			loc, ft := findFieldLoc(p.L, pt.Elem(), name)
			if loc == nil {
				ex.unsupported("verifSetUnexported: no field %s in %s", name, pt.Elem())
			}
			val := args[2].(IfaceV)
			if _, isIface := ft.Underlying().(*types.Interface); isIface {
				loc.V = val
			} else if val.T == nil {
				loc.V = zero(ft)
			} else {
				loc.V = copyVal(val.V)
			}
			return nil
		},
		"verifIsConcrete": func(ex *Exec, fn *ssa.Function, args []Value) Value { return termTrue },
	}
}

// findFieldLoc finds the (possibly promoted) field name in the struct stored at l.
func findFieldLoc(l *Loc, t types.Type, name string) (*Loc, types.Type) {
	st, ok := t.Underlying().(*types.Struct)
	if !ok {
		return nil, nil
	}
	sv, ok := l.V.(*StructV)
	if !ok {
		return nil, nil
	}
	for i := 0; i < st.NumFields(); i++ {
		if st.Field(i).Name() == name {
			return sv.F[i], st.Field(i).Type()
		}
	}
	for i := 0; i < st.NumFields(); i++ {
		f := st.Field(i)
		if f.Embedded() {
			if _, isStruct := f.Type().Underlying().(*types.Struct); isStruct {
				if loc, ft := findFieldLoc(sv.F[i], f.Type(), name); loc != nil {
					return loc, ft
				}
			}
		}
	}
	return nil, nil
}
