package main

// C09 pre-step: extract the built-in summary table from the current /repo source (natively, through an overlay test
// in package summaries), resolve every key against the real signatures of this Go installation's standard library,
// and generate the table as a Go source file for the C09 harness.

import (
	"encoding/json"
	"fmt"
	"go/types"
	"os"
	"os/exec"
	"path/filepath"
	"sort"
	"strings"

	"golang.org/x/tools/go/packages"
)

type tableSummary struct {
	Args [][]int
	Rets [][]int
}

type c09Entry struct {
	Pkg  string
	Key  string
	NP   int
	NR   int
	Args [][]int
	Rets [][]int
}

// extraOverlay holds generated harness files: repo-relative package dir -> file name -> contents.
// The C09 table file is always present (empty unless the C09 pre-step has generated it) so that the dataflow harness
// package compiles for every property.
var extraOverlay = map[string]map[string][]byte{
	"analysis/dataflow": {"gen_c09_table.go": []byte(c09TableHeader + "const c09Unresolved = 0\n\nvar c09Table = []c09Entry{}\n")},
}

const c09TableHeader = "package dataflow\n\n// Generated on every run by `symgo check C09` from /repo/analysis/summaries (table) and GOROOT (signatures).\n\n" +
	"type c09Entry struct {\n\tKey    string\n\tNP, NR int\n\tArgs   [][]int\n\tRets   [][]int\n}\n\n"

func dumpSummaryTable() (map[string]map[string]tableSummary, error) {
	tmp, err := os.MkdirTemp("", "symgo-c09-")
	if err != nil {
		return nil, err
	}
	defer os.RemoveAll(tmp)
	test := `package summaries

import (
	"encoding/json"
	"fmt"
	"testing"
)

func TestVerifDumpTable(t *testing.T) {
	data, err := json.Marshal(stdPackages)
	if err != nil {
		t.Fatal(err)
	}
	fmt.Println("VERIF-TABLE " + string(data))
}
`
	tp := filepath.Join(tmp, "dump_test.go")
	os.WriteFile(tp, []byte(test), 0o644)
	ov := map[string]interface{}{"Replace": map[string]string{filepath.Join(repoRoot, "analysis/summaries/zz_verif_dump_test.go"): tp}}
	ovData, _ := json.Marshal(ov)
	ovPath := filepath.Join(tmp, "overlay.json")
	os.WriteFile(ovPath, ovData, 0o644)
	cmd := exec.Command("go", "test", "-v", "-vet=off", "-count=1", "-overlay", ovPath, "-run", "^TestVerifDumpTable$", "./analysis/summaries")
	cmd.Dir = repoRoot
	cmd.Env = append(os.Environ(), "GOFLAGS=-mod=mod", "GOPROXY=off", "GOSUMDB=off", "GOTOOLCHAIN=local")
	out, _ := cmd.CombinedOutput()
	for _, line := range strings.Split(string(out), "\n") {
		if strings.HasPrefix(line, "VERIF-TABLE ") {
			var table map[string]map[string]tableSummary
			if err := json.Unmarshal([]byte(strings.TrimPrefix(line, "VERIF-TABLE ")), &table); err != nil {
				return nil, err
			}
			return table, nil
		}
	}
	return nil, fmt.Errorf("could not extract the summary table: %s", tail(string(out), 600))
}

// parseKey splits a function.String()-style key into package path, receiver type name ("" for functions) and name.
func parseKey(key string) (pkg, recv, name string, ok bool) {
	if strings.HasPrefix(key, "(") {
		end := strings.Index(key, ").")
		if end < 0 {
			return "", "", "", false
		}
		inner := strings.TrimPrefix(key[1:end], "*")
		name = key[end+2:]
		dot := strings.LastIndex(inner, ".")
		if dot < 0 {
			return "", "", "", false
		}
		return inner[:dot], inner[dot+1:], name, true
	}
	dot := strings.LastIndex(key, ".")
	if dot < 0 {
		return "", "", "", false
	}
	return key[:dot], "", key[dot+1:], true
}

func prepareC09() (string, error) {
	table, err := dumpSummaryTable()
	if err != nil {
		return "", err
	}
	// collect keys (the same per-package map may be registered under several package names)
	type rawEntry struct {
		key string
		s   tableSummary
	}
	seen := map[string]bool{}
	var raws []rawEntry
	pkgSet := map[string]bool{}
	for _, m := range table {
		for key, s := range m {
			if seen[key] {
				continue
			}
			seen[key] = true
			raws = append(raws, rawEntry{key, s})
			if p, _, _, ok := parseKey(key); ok {
				pkgSet[p] = true
			}
		}
	}
	sort.Slice(raws, func(i, j int) bool { return raws[i].key < raws[j].key })
	var pkgPaths []string
	for p := range pkgSet {
		pkgPaths = append(pkgPaths, p)
	}
	sort.Strings(pkgPaths)
	cfg := &packages.Config{Mode: packages.NeedName | packages.NeedTypes | packages.NeedImports | packages.NeedDeps,
		Dir: repoRoot, Env: append(os.Environ(), "GOFLAGS=-mod=mod", "GOPROXY=off", "GOSUMDB=off", "GOTOOLCHAIN=local")}
	pkgs, err := packages.Load(cfg, pkgPaths...)
	if err != nil {
		return "", err
	}
	byPath := map[string]*types.Package{}
	for _, p := range pkgs {
		if p.Types != nil && len(p.Errors) == 0 {
			byPath[p.PkgPath] = p.Types
		}
	}
	var entries []c09Entry
	unresolved := 0
	for _, r := range raws {
		pkg, recv, name, ok := parseKey(r.key)
		if !ok {
			unresolved++
			continue
		}
		tp := byPath[pkg]
		if tp == nil {
			unresolved++
			continue
		}
		var sig *types.Signature
		np := 0
		if recv == "" {
			if fn, ok := tp.Scope().Lookup(name).(*types.Func); ok {
				sig = fn.Type().(*types.Signature)
			}
		} else if tn, ok := tp.Scope().Lookup(recv).(*types.TypeName); ok {
			obj, _, _ := types.LookupFieldOrMethod(types.NewPointer(tn.Type()), true, tp, name)
			if fn, ok := obj.(*types.Func); ok {
				sig = fn.Type().(*types.Signature)
				np = 1
			}
		}
		if sig == nil {
			unresolved++
			continue
		}
		np += sig.Params().Len()
		entries = append(entries, c09Entry{Pkg: pkg, Key: r.key, NP: np, NR: sig.Results().Len(), Args: r.s.Args, Rets: r.s.Rets})
	}
	var sb strings.Builder
	sb.WriteString(c09TableHeader)
	fmt.Fprintf(&sb, "const c09Unresolved = %d\n\n", unresolved)
	sb.WriteString("var c09Table = []c09Entry{\n")
	lit := func(m [][]int) string {
		var rows []string
		for _, r := range m {
			var xs []string
			for _, x := range r {
				xs = append(xs, fmt.Sprint(x))
			}
			rows = append(rows, "{"+strings.Join(xs, ", ")+"}")
		}
		return "[][]int{" + strings.Join(rows, ", ") + "}"
	}
	for _, e := range entries {
		fmt.Fprintf(&sb, "\t{Key: %q, NP: %d, NR: %d, Args: %s, Rets: %s},\n", e.Key, e.NP, e.NR, lit(e.Args), lit(e.Rets))
	}
	sb.WriteString("}\n")
	if extraOverlay["analysis/dataflow"] == nil {
		extraOverlay["analysis/dataflow"] = map[string][]byte{}
	}
	extraOverlay["analysis/dataflow"]["gen_c09_table.go"] = []byte(sb.String())
	return fmt.Sprintf("summary table: %d distinct keys, %d resolved against this Go installation's standard library, %d not resolvable (skipped)", len(raws), len(entries), unresolved), nil
}
