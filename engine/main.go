package main

import (
	"encoding/json"
	"flag"
	"fmt"
	"os"
	"path/filepath"
	"sort"
	"strconv"
	"strings"
	"sync"
	"time"

	"golang.org/x/tools/go/ssa"
)

type TierCfg struct {
	DeadlineS  int   `json:"deadline_s"`
	StepBudget int64 `json:"step_budget"`
	MaxPaths   int   `json:"max_paths"`
	TimeoutMs  int   `json:"solver_timeout_ms"`
}

type CheckCfg struct {
	Packages    []string `json:"packages"` // repo-relative dirs that receive harness files
	Load        []string `json:"load"`     // patterns to load (default: the packages)
	Quick       TierCfg  `json:"quick"`
	Thorough    TierCfg  `json:"thorough"`
	Bounds      map[string]string `json:"bounds"`
	Assumptions []string `json:"assumptions"`
	Outside     []string `json:"outside_claim"`
	Also        []string `json:"also"` // other properties whose harnesses also count for this one (prefix list)
}

type KnownFinding struct {
	ID          string `json:"id"`
	Property    string `json:"property"`
	Description string `json:"description"`
	Status      string `json:"status"` // "open" or "fixed"
}

type KnownFile struct {
	Findings []KnownFinding `json:"findings"`
	Fixed    []string       `json:"fixed"`
}

var (
	verifRoot = "/verif"
	repoRoot  = "/repo"
)

// evidenceDir is where evidence and replay files are written: <verif root>/evidence, unless VERIF_EVIDENCE_DIR
// redirects it (used when the checks are run against a scratch copy of the repository, so that the committed
// evidence - which describes /repo itself - is not overwritten).
func evidenceDir() string {
	if v := os.Getenv("VERIF_EVIDENCE_DIR"); v != "" {
		return v
	}
	return filepath.Join(verifRoot, "evidence")
}

func main() {
	if v := os.Getenv("VERIF_ROOT"); v != "" {
		verifRoot = v
	}
	if v := os.Getenv("VERIF_REPO"); v != "" {
		repoRoot = v
	}
	if len(os.Args) < 2 {
		fmt.Println("usage: symgo check <property> [--tier quick|thorough] | replay <file> | selftest")
		os.Exit(2)
	}
	switch os.Args[1] {
	case "check":
		os.Exit(cmdCheck(os.Args[2:]))
	case "replay":
		os.Exit(cmdReplay(os.Args[2:]))
	case "selftest":
		os.Exit(cmdSelftest(os.Args[2:]))
	default:
		fmt.Println("unknown command", os.Args[1])
		os.Exit(2)
	}
}

func loadChecks() (map[string]*CheckCfg, error) {
	data, err := os.ReadFile(filepath.Join(verifRoot, "checks.json"))
	if err != nil {
		return nil, err
	}
	m := map[string]*CheckCfg{}
	if err := json.Unmarshal(data, &m); err != nil {
		return nil, err
	}
	return m, nil
}

func loadKnown() map[string]KnownFinding {
	out := map[string]KnownFinding{}
	data, err := os.ReadFile(filepath.Join(verifRoot, "known_findings.json"))
	if err != nil {
		return out
	}
	var kf KnownFile
	if json.Unmarshal(data, &kf) != nil {
		return out
	}
	for _, f := range kf.Findings {
		if f.Status == "open" {
			out[f.ID] = f
		}
	}
	return out
}

type harnessSpec struct {
	fn     *ssa.Function
	pkgDir string
}

func cmdCheck(args []string) int {
	fs := flag.NewFlagSet("check", flag.ExitOnError)
	tier := fs.String("tier", "quick", "quick or thorough")
	only := fs.String("harness", "", "run only harnesses whose name contains this")
	verbose := fs.Bool("v", false, "verbose")
	noReplay := fs.Bool("no-replay", false, "skip native replay (debugging only; result is then inconclusive on findings)")
	workers := fs.Int("j", 16, "parallel harnesses")
	var prop string
	if len(args) > 0 && !strings.HasPrefix(args[0], "-") {
		prop = args[0]
		args = args[1:]
	}
	fs.Parse(args)
	if prop == "" && fs.NArg() > 0 {
		prop = fs.Arg(0)
	}
	if t := os.Getenv("VERIF_TIER"); t != "" && !flagSet(fs, "tier") {
		*tier = t
	}
	if *tier == "thorough" {
		currentTier = 1
	}
	seed := 0
	if s := os.Getenv("VERIF_SEED"); s != "" {
		seed, _ = strconv.Atoi(s)
	}
	start := time.Now()
	checks, err := loadChecks()
	if err != nil {
		fmt.Println("ERROR cannot read checks.json:", err)
		return 2
	}
	cfg, ok := checks[prop]
	if !ok {
		fmt.Println("ERROR unknown property", prop)
		return 2
	}
	tc := cfg.Quick
	if currentTier == 1 {
		tc = cfg.Thorough
	}
	if tc.DeadlineS == 0 {
		tc.DeadlineS = 300
	}
	if tc.StepBudget == 0 {
		tc.StepBudget = 3000000
	}
	if tc.TimeoutMs == 0 {
		tc.TimeoutMs = 20000
	}
	known := loadKnown()

	var preNotes []string
	if prop == "C09" {
		note, err := prepareC09()
		if err != nil {
			fmt.Println("ERROR C09 table extraction:", err)
			return 2
		}
		fmt.Println("symgo:", note)
		preNotes = append(preNotes, note)
	}
	_ = preNotes
	harnessRoot := filepath.Join(verifRoot, "harness")
	overlay, realFiles, err := harnessOverlay(repoRoot, harnessRoot, cfg.Packages, false)
	if err != nil {
		fmt.Println("ERROR", err)
		return 2
	}
	patterns := cfg.Load
	if len(patterns) == 0 {
		for _, p := range cfg.Packages {
			patterns = append(patterns, "./"+p)
		}
	}
	tLoad := time.Now()
	prog, err := LoadProgram(repoRoot, patterns, overlay)
	if err != nil {
		fmt.Println("ERROR", err)
		writeEvidence(prop, *tier, seed, nil, cfg, time.Since(start), 0, []string{"load failed: " + err.Error()}, 0)
		return 2
	}
	prog.Overlay = realFiles
	loadDur := time.Since(tLoad)

	// discover harnesses
	var specs []harnessSpec
	prefixes := []string{"Harness_" + prop + "_"}
	var alsoExact []string
	for _, a := range cfg.Also {
		prefixes = append(prefixes, "Harness_"+a+"_")
		alsoExact = append(alsoExact, "Harness_"+a)
	}
	for _, pd := range cfg.Packages {
		sp := prog.Package(repoModule + "/" + pd)
		if sp == nil {
			fmt.Println("ERROR package not loaded:", pd)
			return 2
		}
		var names []string
		for name, mem := range sp.Members {
			if _, isFn := mem.(*ssa.Function); !isFn {
				continue
			}
			matched := false
			for _, pre := range prefixes {
				if strings.HasPrefix(name, pre) {
					matched = true
					break
				}
			}
			for _, ex := range alsoExact {
				if name == ex { // an "also" entry may name one harness exactly
					matched = true
				}
			}
			if matched {
				names = append(names, name)
			}
		}
		sort.Strings(names)
		for _, n := range names {
			if strings.HasSuffix(n, "_T") && currentTier == 0 {
				continue
			}
			if *only != "" && !strings.Contains(n, *only) {
				continue
			}
			specs = append(specs, harnessSpec{fn: sp.Func(n), pkgDir: pd})
		}
	}
	if len(specs) == 0 {
		fmt.Println("ERROR no harness found for", prop)
		return 2
	}
	fmt.Printf("symgo: property %s tier %s: %d harnesses, load %.1fs\n", prop, *tier, len(specs), loadDur.Seconds())

	// run harnesses in parallel
	outcomes := make([]*HarnessOutcome, len(specs))
	var wg sync.WaitGroup
	sem := make(chan struct{}, *workers)
	for i, sp := range specs {
		wg.Add(1)
		go func(i int, sp harnessSpec) {
			defer wg.Done()
			sem <- struct{}{}
			defer func() { <-sem }()
			solver, err := NewSolver("z3", tc.TimeoutMs)
			if err != nil {
				outcomes[i] = &HarnessOutcome{Run: &HarnessRun{Name: sp.fn.Name(), Errors: []string{"cannot start z3: " + err.Error()}}}
				return
			}
			defer solver.Close()
			h := &HarnessRun{Prog: prog, Fn: sp.fn, Name: sp.fn.Name(), Property: prop, Solver: solver,
				Findings: map[string]*Finding{}, Reached: map[string]bool{}, Assumes: map[string]bool{},
				Deadline: time.Now().Add(time.Duration(tc.DeadlineS) * time.Second), StepBudget: tc.StepBudget,
				MaxPaths: tc.MaxPaths, FuncsSeen: map[string]bool{}, Stubs: map[string]bool{}, Known: known,
				KnownSeen: map[string]string{}, Verbose: *verbose, AssertIDs: map[string]int{}}
			if currentTier == 1 {
				for _, k := range []string{"cvc5", "z3-new"} {
					if s2, err := NewSolver(k, tc.TimeoutMs); err == nil {
						h.CrossCheck = append(h.CrossCheck, s2)
						defer s2.Close()
					}
				}
			}
			per := *workers / len(specs)
			if per < 1 {
				per = 1
			}
			if per > 8 {
				per = 8
			}
			outcomes[i] = h.ExploreParallel(per, func() (*Solver, error) { return NewSolver("z3", tc.TimeoutMs) })
		}(i, sp)
	}
	wg.Wait()

	// vacuity: every verifReach label that occurs in a harness must have been reached
	exit := 0
	var inconclusive []string
	for i, oc := range outcomes {
		h := oc.Run
		labels := reachLabels(specs[i].fn)
		for _, l := range labels {
			if !h.Reached[l] && oc.Complete {
				inconclusive = append(inconclusive, fmt.Sprintf("VACUOUS harness %s: label %q never reached", h.Name, l))
			}
		}
		for _, e := range h.Errors {
			inconclusive = append(inconclusive, fmt.Sprintf("%s: %s", h.Name, e))
		}
	}

	// native replay of every finding plus a few passing path samples
	var allFindings []*Finding
	for _, oc := range outcomes {
		keys := make([]string, 0, len(oc.Run.Findings))
		for k := range oc.Run.Findings {
			keys = append(keys, k)
		}
		sort.Strings(keys)
		for _, k := range keys {
			allFindings = append(allFindings, oc.Run.Findings[k])
		}
	}
	replayed := 0
	if len(allFindings) > 0 && !*noReplay {
		byPkg := map[string][]*Finding{}
		for i, oc := range outcomes {
			for _, f := range oc.Run.Findings {
				byPkg[specs[i].pkgDir] = append(byPkg[specs[i].pkgDir], f)
			}
		}
		for pd, fl := range byPkg {
			sort.Slice(fl, func(a, b int) bool { return fl[a].Harness+fl[a].AssertID < fl[b].Harness+fl[b].AssertID })
			n, err := replayFindings(prog, cfg, pd, fl, known)
			replayed += n
			if err != nil {
				inconclusive = append(inconclusive, "replay: "+err.Error())
			}
		}
	}

	// native cross-validation of passing paths: the same inputs must not fail against the real build
	if !*noReplay && os.Getenv("SYMGO_NO_SAMPLES") == "" {
		byPkg := map[string][]int{}
		for i := range outcomes {
			byPkg[specs[i].pkgDir] = append(byPkg[specs[i].pkgDir], i)
		}
		for pd, idxs := range byPkg {
			var names []string
			var vecs [][]InputValue
			for _, i := range idxs {
				if _, hasFinding := anyFinding(outcomes[i].Run); hasFinding {
					continue // a harness with findings is replayed through its findings
				}
				for _, v := range outcomes[i].Run.PathSamples {
					names = append(names, outcomes[i].Run.Name)
					vecs = append(vecs, v)
				}
			}
			if len(vecs) == 0 {
				continue
			}
			n, bad, err := replaySamples(cfg, pd, names, vecs, known)
			replayed += n
			if err != nil {
				inconclusive = append(inconclusive, "sample replay: "+err.Error())
			}
			for _, b := range bad {
				inconclusive = append(inconclusive, "ENGINE-MISMATCH "+b)
			}
		}
	}

	violations := 0
	for _, f := range allFindings {
		switch {
		case f.Known != "":
			if f.Replayed == "reproduced" || *noReplay {
				fmt.Printf("KNOWN-FINDING: property=%s %s (%s; assertion %s in %s reproduces with inputs %s)\n", prop, f.Known, known[f.Known].Description, f.AssertID, f.Harness, inputsBrief(f.Inputs))
			} else {
				fmt.Printf("NOTE known finding %s: solver model did not reproduce natively (%s)\n", f.Known, f.Replayed)
				inconclusive = append(inconclusive, "ENGINE-MISMATCH on known finding "+f.Known+" "+f.ReplayOut)
			}
		case f.Replayed == "reproduced":
			violations++
			path := writeReplayFile(prop, f, specs, currentTier)
			fmt.Printf("VIOLATION property=%s replay=%s\n", prop, path)
			fmt.Printf("  harness=%s assertion=%s kind=%s %s\n  inputs: %s\n  native: %s\n", f.Harness, f.AssertID, f.Kind, f.Msg, inputsBrief(f.Inputs), f.ReplayOut)
		case *noReplay:
			fmt.Printf("FINDING(not replayed) property=%s harness=%s assertion=%s kind=%s %s inputs: %s\n", prop, f.Harness, f.AssertID, f.Kind, f.Msg, inputsBrief(f.Inputs))
			inconclusive = append(inconclusive, "finding not replayed")
		case f.orderDependent:
			fmt.Printf("UNCONFIRMED property=%s harness=%s assertion=%s kind=%s: found on a symbolic schedule / map order that the native runs did not hit (%s); inputs: %s\n", prop, f.Harness, f.AssertID, f.Kind, f.ReplayOut, inputsBrief(f.Inputs))
			inconclusive = append(inconclusive, "schedule-dependent finding not observed natively: "+f.AssertID)
		default:
			fmt.Printf("ENGINE-MISMATCH property=%s harness=%s assertion=%s: solver model did not reproduce natively (%s) %s inputs: %s\n  native: %s\n", prop, f.Harness, f.AssertID, f.Replayed, f.Msg, inputsBrief(f.Inputs), f.ReplayOut)
			inconclusive = append(inconclusive, "ENGINE-MISMATCH "+f.AssertID)
		}
	}
	for _, oc := range outcomes {
		h := oc.Run
		fmt.Printf("  %-40s paths=%d forks=%d obligations=%d discharged=%d violated=%d unknown=%d queries=%d solver=%.1fs wall=%.1fs\n",
			h.Name, h.Stats.Paths, h.Stats.Forks, h.Stats.Obligations, h.Stats.Discharged, h.Stats.Violated, h.Stats.UnknownObl,
			h.Stats.Queries, h.Stats.SolverTime.Seconds(), oc.Elapsed.Seconds())
		if *verbose {
			for _, id := range sortedKeysInt(h.AssertIDs) {
				fmt.Printf("      obligation %-50s checked %d times\n", id, h.AssertIDs[id])
			}
		}
	}
	for _, s := range inconclusive {
		fmt.Println("INCONCLUSIVE", s)
	}
	if violations > 0 {
		exit = 1
	} else if len(inconclusive) > 0 {
		exit = 2
	}
	writeEvidence(prop, *tier, seed, outcomes, cfg, time.Since(start), violations, inconclusive, replayed)
	if exit == 0 {
		fmt.Printf("OK property=%s tier=%s held on everything explored (%.1fs)\n", prop, *tier, time.Since(start).Seconds())
	}
	return exit
}

func anyFinding(h *HarnessRun) (*Finding, bool) {
	for _, f := range h.Findings {
		return f, true
	}
	return nil, false
}

func flagSet(fs *flag.FlagSet, name string) bool {
	found := false
	fs.Visit(func(f *flag.Flag) {
		if f.Name == name {
			found = true
		}
	})
	return found
}

func sortedKeysInt(m map[string]int) []string {
	var ks []string
	for k := range m {
		ks = append(ks, k)
	}
	sort.Strings(ks)
	return ks
}

func inputsBrief(in []InputValue) string {
	var parts []string
	for _, i := range in {
		parts = append(parts, i.Name+"="+i.Value)
	}
	s := strings.Join(parts, " ")
	if len(s) > 600 {
		s = s[:600] + "…"
	}
	return s
}

// reachLabels statically collects the verifReach labels in fn and the harness helpers it calls.
func reachLabels(fn *ssa.Function) []string {
	seen := map[*ssa.Function]bool{}
	labels := map[string]bool{}
	var visit func(f *ssa.Function)
	visit = func(f *ssa.Function) {
		if seen[f] || f == nil || f.Blocks == nil {
			return
		}
		seen[f] = true
		for _, b := range f.Blocks {
			for _, ins := range b.Instrs {
				call, ok := ins.(ssa.CallInstruction)
				if !ok {
					continue
				}
				callee := call.Common().StaticCallee()
				if callee == nil {
					continue
				}
				if callee.Name() == "verifReach" {
					if c, ok := call.Common().Args[0].(*ssa.Const); ok {
						labels[strings.Trim(c.Value.ExactString(), `"`)] = true
					}
					continue
				}
				// only follow helpers defined in harness files
				if callee.Pkg == fn.Pkg && callee.Pos().IsValid() {
					file := fn.Prog.Fset.Position(callee.Pos()).Filename
					if strings.Contains(filepath.Base(file), "zz_verif_") {
						visit(callee)
					}
				}
			}
		}
		for _, af := range f.AnonFuncs {
			visit(af)
		}
	}
	visit(fn)
	return sortedKeys(labels)
}

// ---------------------------------------------------------------------------
// Evidence

func writeEvidence(prop, tier string, seed int, outcomes []*HarnessOutcome, cfg *CheckCfg, wall time.Duration, violations int, inconclusive []string, replayed int) {
	type harnessEv struct {
		Name        string   `json:"name"`
		Paths       int      `json:"paths"`
		Forks       int      `json:"forks"`
		Obligations int      `json:"obligations"`
		Discharged  int      `json:"discharged"`
		Violated    int      `json:"violated"`
		Unknown     int      `json:"unknown"`
		Queries     int      `json:"queries"`
		Sat         int      `json:"sat"`
		Unsat       int      `json:"unsat"`
		SolverS     float64  `json:"solver_time_s"`
		WallS       float64  `json:"wall_s"`
		Complete    bool     `json:"complete"`
		Steps       int64    `json:"interpreter_steps"`
		AssertIDs   []string `json:"obligation_ids"`
	}
	cov := map[string]interface{}{}
	var hs []harnessEv
	states, transitions, obligations, discharged, queries, sat, unsat, unknown := 0, 0, 0, 0, 0, 0, 0, 0
	solverT := 0.0
	funcs := map[string]bool{}
	stubs := map[string]bool{}
	assumes := map[string]bool{}
	var samples []interface{}
	exhaustive := true
	for _, oc := range outcomes {
		h := oc.Run
		states += h.Stats.Paths
		transitions += h.Stats.Decisions
		obligations += h.Stats.Obligations
		discharged += h.Stats.Discharged
		queries += h.Stats.Queries
		sat += h.Stats.Sat
		unsat += h.Stats.Unsat
		unknown += h.Stats.Unknown
		solverT += h.Stats.SolverTime.Seconds()
		if !oc.Complete {
			exhaustive = false
		}
		for f := range h.FuncsSeen {
			if strings.Contains(f, repoModule) && !strings.Contains(f, "Harness_") && !strings.Contains(f, "verif") {
				funcs[strings.ReplaceAll(f, repoModule+"/", "")] = true
			}
		}
		for s := range h.Stubs {
			if !strings.Contains(s, ".verif") {
				stubs[s] = true
			}
		}
		for a := range h.Assumes {
			assumes[h.Name+": "+a] = true
		}
		for _, s := range h.Samples {
			if len(samples) < 12 {
				samples = append(samples, h.Name+": "+s)
			}
		}
		hs = append(hs, harnessEv{Name: h.Name, Paths: h.Stats.Paths, Forks: h.Stats.Forks, Obligations: h.Stats.Obligations,
			Discharged: h.Stats.Discharged, Violated: h.Stats.Violated, Unknown: h.Stats.UnknownObl, Queries: h.Stats.Queries,
			Sat: h.Stats.Sat, Unsat: h.Stats.Unsat, SolverS: h.Stats.SolverTime.Seconds(), WallS: oc.Elapsed.Seconds(),
			Complete: oc.Complete, Steps: h.Stats.Steps, AssertIDs: sortedKeysInt(h.AssertIDs)})
	}
	if len(samples) == 0 {
		samples = append(samples, "no obligation needed a solver query of its own: on every explored path the asserted condition folded to a constant (the solver decided path feasibility at the forks)")
	}
	if transitions == 0 {
		transitions = states
	}
	cov["states"] = states
	cov["transitions"] = transitions
	cov["traces_validated_against_impl"] = replayed
	cov["samples"] = samples
	cov["obligations"] = obligations
	cov["discharged"] = discharged
	cov["exhaustive"] = exhaustive && len(inconclusive) == 0
	cov["explanation"] = "states = symbolic paths explored by the SSA executor over the functions listed in functions_encoded; transitions = symbolic branch/choice decisions; every obligation (assertion or implicit Go panic) is decided by z3 over all values of the symbolic inputs on its path; traces_validated_against_impl = native go-test replays of solver models against the real build"
	cov["functions_encoded"] = sortedKeys(funcs)
	cov["stubs_and_intrinsics"] = sortedKeys(stubs)
	cov["bounds"] = cfg.Bounds
	cov["outside_claim"] = cfg.Outside
	cov["queries"] = queries
	cov["sat"] = sat
	cov["unsat"] = unsat
	cov["unknown"] = unknown
	cov["solver_time_s"] = solverT
	cov["solvers"] = []string{"z3 4.8.12 (incremental, primary)", "cvc5 1.0 --solve-bv-as-int=sum (symbolic multiplication)", "thorough: cvc5 + z3 5.1.0 re-check of each discharged obligation"}
	cov["harnesses"] = hs
	cov["inconclusive"] = inconclusive
	ass := append([]string{}, cfg.Assumptions...)
	ass = append(ass, sortedKeys(assumes)...)
	for _, o := range cfg.Outside {
		ass = append(ass, "outside the claim: "+o)
	}
	ev := map[string]interface{}{
		"property_id": prop,
		"tier":        tier,
		"seed":        seed,
		"level":       "model_checking",
		"coverage":    cov,
		"assumptions": ass,
		"wall_s":      wall.Seconds(),
		"violations":  violations,
	}
	data, _ := json.MarshalIndent(ev, "", " ")
	os.MkdirAll(evidenceDir(), 0o755)
	os.WriteFile(filepath.Join(evidenceDir(), prop+".json"), data, 0o644)
}
