package main

import "fmt"

func cmdSelftest(args []string) int {
	fmt.Println("selftest: TODO")
	return 0
}
