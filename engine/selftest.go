package main

import (
	"encoding/json"
	"fmt"
	"math"
	"math/rand"
	"os"
	"path/filepath"
	"regexp"
	"sort"
	"strconv"
	"strings"
	"time"

	"golang.org/x/tools/go/ssa"
)

// cmdSelftest checks the solver back ends and the term layer on fixed queries with known answers.
// (The interpreter itself is validated on every check by native replay of counterexamples and of sampled passing paths.)
func cmdSelftest(args []string) int {
	fail := 0
	report := func(name string, ok bool, detail string) {
		if ok {
			fmt.Printf("selftest ok   %s\n", name)
		} else {
			fmt.Printf("selftest FAIL %s %s\n", name, detail)
			fail++
		}
	}
	for _, kind := range []string{"z3", "cvc5", "z3-new"} {
		s, err := NewSolver(kind, 20000)
		if err != nil {
			report(kind+" starts", false, err.Error())
			continue
		}
		x := Var("x", SortBV(64))
		y := Var("y", SortBV(32))
		// int32 truncation of 2^31 is negative (the D4 defect shape)
		trunc := Extract(x, 31, 0)
		q := And(Eq(x, BVConst(1<<31, 64)), BVCmp("bvslt", trunc, BVConst(0, 32)))
		r, m, err := s.Check([]*Term{q}, []*Term{x})
		report(kind+" sat+model", r == Sat && err == nil && m["x"] != nil && m["x"].BV == 1<<31, fmt.Sprint(r, err))
		// x+1 > x is not valid for wrapping integers
		r, _, _ = s.Check([]*Term{Not(BVCmp("bvsgt", BVBin("bvadd", x, BVConst(1, 64)), x))}, nil)
		report(kind+" wraparound", r == Sat, r.String())
		// zero-extension is monotone
		r, _, _ = s.Check([]*Term{BVCmp("bvult", ZeroExt(y, 64), BVConst(0, 64))}, nil)
		report(kind+" unsat", r == Unsat, r.String())
		// strings
		a, b := Var("a", SortString), Var("b", SortString)
		r, _, _ = s.Check([]*Term{And(StrContains(a, b), And(StrIsLowerLiteral(b), Not(Eq(b, StrConst("")))))}, []*Term{a, b})
		report(kind+" strings", r == Sat, r.String())
		// push/pop isolation
		s.Assert(Eq(x, BVConst(5, 64)))
		r, _, _ = s.Check([]*Term{Eq(x, BVConst(6, 64))}, nil)
		r2, _, _ := s.Check(nil, nil)
		report(kind+" incremental", r == Unsat && r2 == Sat, fmt.Sprint(r, r2))
		s.Close()
	}
	// symbolic multiplication through cvc5's integer encoding: injectivity of i*n+v under the no-overflow bound
	nv, ni := Var("nv", SortBV(32)), Var("ni", SortBV(32))
	a, b, c, d := Var("a", SortBV(32)), Var("b", SortBV(32)), Var("c", SortBV(32)), Var("d", SortBV(32))
	total := BVBin("bvmul", ZeroExt(nv, 64), ZeroExt(ni, 64))
	pre := []*Term{BVCmp("bvult", total, BVConst(1<<32, 64)), BVCmp("bvult", a, nv), BVCmp("bvult", b, nv), BVCmp("bvult", c, ni), BVCmp("bvult", d, ni)}
	p1 := BVBin("bvadd", BVBin("bvmul", c, nv), a)
	p2 := BVBin("bvadd", BVBin("bvmul", d, nv), b)
	neg := And(Eq(p1, p2), Not(And(Eq(a, b), Eq(c, d))))
	r, _, err := OneShotCVC5Int(append(pre, neg), nil, 60000)
	report("cvc5 integer encoding: flat index injective", r == Unsat, fmt.Sprint(r, err))
	r, _, err = OneShotCVC5Int(append(pre[1:], neg), []*Term{nv, ni}, 60000)
	report("cvc5 integer encoding: wrap-around counterexample without the bound", r == Sat, fmt.Sprint(r, err))
	if fail > 0 {
		return 2
	}
	fmt.Println("selftest: all back ends agree with the expected answers")
	if len(args) > 0 && args[0] == "solvers" {
		return 0
	}
	seed := int64(1)
	if s := os.Getenv("VERIF_SEED"); s != "" {
		if v, err := strconv.ParseInt(s, 10, 64); err == nil {
			seed = v
		}
	}
	nOK, nTotal, problems := selftestInterpreter(seed)
	for i, p := range problems {
		if i < 30 {
			fmt.Println("selftest FAIL interpreter:", p)
		}
	}
	fmt.Printf("selftest: interpreter agrees with the native build on %d of %d (function, vector) pairs\n", nOK, nTotal)
	if len(problems) > 0 || nTotal == 0 {
		return 2
	}
	return 0
}

// selftestInterpreter runs the differential corpus (harness/internal/funcutil/st_corpus.go) concretely in the
// interpreter and natively on the same vectors and compares the results.
func selftestInterpreter(seed int64) (ok, total int, problems []string) {
	pkgDirs := []string{"internal/funcutil"}
	overlay, _, err := harnessOverlay(repoRoot, filepath.Join(verifRoot, "harness"), pkgDirs, false)
	if err != nil {
		return 0, 0, []string{err.Error()}
	}
	prog, err := LoadProgram(repoRoot, []string{"./internal/funcutil"}, overlay)
	if err != nil {
		return 0, 0, []string{err.Error()}
	}
	sp := prog.Package(repoModule + "/internal/funcutil")
	var names []string
	for name, mem := range sp.Members {
		if _, isFn := mem.(*ssa.Function); isFn && strings.HasPrefix(name, "Selftest_") {
			names = append(names, name)
		}
	}
	sort.Strings(names)
	rng := rand.New(rand.NewSource(seed))
	vectors := [][3]int64{{0, 0, 0}, {1, -1, 2}, {-1, 1, -2}, {math.MaxInt64, math.MinInt64, 7}, {math.MinInt64, -1, math.MaxInt64},
		{255, 256, 65535}, {1 << 31, 1<<32 - 1, -(1 << 31)}, {3, 5, 8}}
	for len(vectors) < 24 {
		v := [3]int64{}
		for k := range v {
			switch rng.Intn(3) {
			case 0:
				v[k] = int64(rng.Intn(40)) - 10
			case 1:
				v[k] = rng.Int63() - rng.Int63()
			default:
				v[k] = int64(int32(rng.Uint32()))
			}
		}
		vectors = append(vectors, v)
	}
	payload, _ := json.Marshal(vectors)
	text, err := runNativeTest(pkgDirs, "internal/funcutil", "^TestVerifSelftest$", "VERIF_SELFTEST", payload, 240*time.Second)
	if err != nil {
		return 0, 0, []string{err.Error()}
	}
	native := map[string]int64{}
	for _, m := range regexp.MustCompile(`(?m)^VERIF-ST (\w+) (\d+) (-?\d+)$`).FindAllStringSubmatch(text, -1) {
		v, _ := strconv.ParseInt(m[3], 10, 64)
		native[m[1]+"#"+m[2]] = v
	}
	solver, err := NewSolver("z3", 20000)
	if err != nil {
		return 0, 0, []string{err.Error()}
	}
	defer solver.Close()
	for _, name := range names {
		for i, v := range vectors {
			total++
			h := &HarnessRun{Prog: prog, Fn: sp.Func(name), Name: name, Property: "selftest", Solver: solver,
				Findings: map[string]*Finding{}, Reached: map[string]bool{}, Assumes: map[string]bool{},
				Deadline: time.Now().Add(120 * time.Second), StepBudget: 5000000, FuncsSeen: map[string]bool{}, Stubs: map[string]bool{},
				Known: map[string]KnownFinding{}, KnownSeen: map[string]string{}, AssertIDs: map[string]int{},
				Args: []Value{BVConst(uint64(v[0]), 64), BVConst(uint64(v[1]), 64), BVConst(uint64(v[2]), 64)}}
			oc := h.Explore()
			want, have := native[fmt.Sprintf("%s#%d", name, i)]
			switch {
			case !have:
				problems = append(problems, fmt.Sprintf("%s%v: no native result", name, v))
			case !oc.Complete || len(h.Findings) > 0 || len(h.Results) != h.Stats.Paths:
				msg := strings.Join(h.Errors, "; ")
				for _, f := range h.Findings {
					msg += " finding: " + f.AssertID + " " + f.Msg
				}
				problems = append(problems, fmt.Sprintf("%s%v: interpreter did not complete on one path (paths=%d) %s", name, v, h.Stats.Paths, msg))
			default:
				// every path (there are several only when goroutine schedules are enumerated) must give the native result
				good := true
				for _, res := range h.Results {
					r, isT := res.(*Term)
					if !isT || !r.IsConst() {
						problems = append(problems, fmt.Sprintf("%s%v: interpreter result is not concrete", name, v))
						good = false
						break
					} else if r.Signed() != want {
						problems = append(problems, fmt.Sprintf("%s%v: interpreter %d, native %d", name, v, r.Signed(), want))
						good = false
						break
					}
				}
				if good {
					ok++
				}
			}
		}
	}
	return ok, total, problems
}
