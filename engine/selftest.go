package main

import (
	"fmt"
)

// cmdSelftest checks the solver back ends and the term layer on fixed queries with known answers.
// (The interpreter itself is validated on every check by native replay of counterexamples and of sampled passing paths.)
func cmdSelftest(args []string) int {
	fail := 0
	report := func(name string, ok bool, detail string) {
		if ok {
			fmt.Printf("selftest ok   %s\n", name)
		} else {
			fmt.Printf("selftest FAIL %s %s\n", name, detail)
			fail++
		}
	}
	for _, kind := range []string{"z3", "cvc5", "z3-new"} {
		s, err := NewSolver(kind, 20000)
		if err != nil {
			report(kind+" starts", false, err.Error())
			continue
		}
		x := Var("x", SortBV(64))
		y := Var("y", SortBV(32))
		// int32 truncation of 2^31 is negative (the D4 defect shape)
		trunc := Extract(x, 31, 0)
		q := And(Eq(x, BVConst(1<<31, 64)), BVCmp("bvslt", trunc, BVConst(0, 32)))
		r, m, err := s.Check([]*Term{q}, []*Term{x})
		report(kind+" sat+model", r == Sat && err == nil && m["x"] != nil && m["x"].BV == 1<<31, fmt.Sprint(r, err))
		// x+1 > x is not valid for wrapping integers
		r, _, _ = s.Check([]*Term{Not(BVCmp("bvsgt", BVBin("bvadd", x, BVConst(1, 64)), x))}, nil)
		report(kind+" wraparound", r == Sat, r.String())
		// zero-extension is monotone
		r, _, _ = s.Check([]*Term{BVCmp("bvult", ZeroExt(y, 64), BVConst(0, 64))}, nil)
		report(kind+" unsat", r == Unsat, r.String())
		// strings
		a, b := Var("a", SortString), Var("b", SortString)
		r, _, _ = s.Check([]*Term{And(StrContains(a, b), And(StrIsLowerLiteral(b), Not(Eq(b, StrConst("")))))}, []*Term{a, b})
		report(kind+" strings", r == Sat, r.String())
		// push/pop isolation
		s.Assert(Eq(x, BVConst(5, 64)))
		r, _, _ = s.Check([]*Term{Eq(x, BVConst(6, 64))}, nil)
		r2, _, _ := s.Check(nil, nil)
		report(kind+" incremental", r == Unsat && r2 == Sat, fmt.Sprint(r, r2))
		s.Close()
	}
	// symbolic multiplication through cvc5's integer encoding: injectivity of i*n+v under the no-overflow bound
	nv, ni := Var("nv", SortBV(32)), Var("ni", SortBV(32))
	a, b, c, d := Var("a", SortBV(32)), Var("b", SortBV(32)), Var("c", SortBV(32)), Var("d", SortBV(32))
	total := BVBin("bvmul", ZeroExt(nv, 64), ZeroExt(ni, 64))
	pre := []*Term{BVCmp("bvult", total, BVConst(1<<32, 64)), BVCmp("bvult", a, nv), BVCmp("bvult", b, nv), BVCmp("bvult", c, ni), BVCmp("bvult", d, ni)}
	p1 := BVBin("bvadd", BVBin("bvmul", c, nv), a)
	p2 := BVBin("bvadd", BVBin("bvmul", d, nv), b)
	neg := And(Eq(p1, p2), Not(And(Eq(a, b), Eq(c, d))))
	r, _, err := OneShotCVC5Int(append(pre, neg), nil, 60000)
	report("cvc5 integer encoding: flat index injective", r == Unsat, fmt.Sprint(r, err))
	r, _, err = OneShotCVC5Int(append(pre[1:], neg), []*Term{nv, ni}, 60000)
	report("cvc5 integer encoding: wrap-around counterexample without the bound", r == Sat, fmt.Sprint(r, err))
	if fail > 0 {
		return 2
	}
	fmt.Println("selftest: all back ends agree with the expected answers")
	return 0
}
