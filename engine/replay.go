package main

// Native replay: a solver model becomes an input vector for the same harness compiled against the real build.

import (
	"context"
	"encoding/json"
	"fmt"
	"os"
	"os/exec"
	"path/filepath"
	"regexp"
	"sort"
	"strconv"
	"strings"
	"time"
)

type replayRun struct {
	Harness string       `json:"harness"`
	Tier    int          `json:"tier"`
	Inputs  []InputValue `json:"inputs"`
	Repeat  int          `json:"repeat"`
	Known   []string     `json:"known"`
	// not read by the native side
	Property string   `json:"property,omitempty"`
	PkgDir   string   `json:"pkg_dir,omitempty"`
	Packages []string `json:"packages,omitempty"`
	Expect   string   `json:"expect,omitempty"`
	Kind     string   `json:"kind,omitempty"`
}

type replayFile struct {
	Runs []replayRun `json:"runs"`
}

// nativeRace makes the next native run use the Go race detector.
var nativeRace bool

var resultRe = regexp.MustCompile(`(?m)^VERIF-RESULT (-?\d+) (.*)$`)

// runNative runs the given runs (all harnesses in pkgDir) in one `go test` invocation.
func runNative(pkgDirs []string, pkgDir string, runs []replayRun, timeout time.Duration) (map[int]string, string, error) {
	rf := replayFile{Runs: runs}
	rdata, _ := json.Marshal(rf)
	text, err := runNativeTest(pkgDirs, pkgDir, "^TestVerifReplay$", "VERIF_REPLAY", rdata, timeout)
	res := map[int]string{}
	for _, m := range resultRe.FindAllStringSubmatch(text, -1) {
		idx, _ := strconv.Atoi(m[1])
		res[idx] = strings.TrimSpace(m[2])
	}
	return res, text, err
}

// runNativeTest compiles the harness files of pkgDirs into the real packages (go test -overlay) and runs one
// generated test of pkgDir; payload is written to a file whose path is passed in the environment variable envName.
func runNativeTest(pkgDirs []string, pkgDir string, runPattern, envName string, payload []byte, timeout time.Duration) (string, error) {
	tmp, err := os.MkdirTemp("", "symgo-replay-")
	if err != nil {
		return "", err
	}
	defer os.RemoveAll(tmp)
	harnessRoot := filepath.Join(verifRoot, "harness")
	overlay := map[string]string{}
	var harnessNames, selftestNames []string
	for _, pd := range pkgDirs {
		dir := filepath.Join(harnessRoot, pd)
		ents, err := os.ReadDir(dir)
		if err != nil {
			return "", err
		}
		pkgName := ""
		for _, e := range ents {
			if !strings.HasSuffix(e.Name(), ".go") {
				continue
			}
			data, err := os.ReadFile(filepath.Join(dir, e.Name()))
			if err != nil {
				return "", err
			}
			if pkgName == "" {
				pkgName = packageClause(data)
			}
			overlay[filepath.Join(repoRoot, pd, "zz_verif_"+e.Name())] = filepath.Join(dir, e.Name())
			if pd == pkgDir {
				for _, m := range regexp.MustCompile(`(?m)^func (Harness_\w+)\(\)`).FindAllStringSubmatch(string(data), -1) {
					harnessNames = append(harnessNames, m[1])
				}
				for _, m := range regexp.MustCompile(`(?m)^func (Selftest_\w+)\(a, b, c int64\)`).FindAllStringSubmatch(string(data), -1) {
					selftestNames = append(selftestNames, m[1])
				}
			}
		}
		for name, data := range extraOverlay[pd] {
			gp := filepath.Join(tmp, strings.ReplaceAll(pd, "/", "_")+"_"+name)
			os.WriteFile(gp, data, 0o644)
			overlay[filepath.Join(repoRoot, pd, "zz_verif_"+name)] = gp
		}
		rt, err := os.ReadFile(filepath.Join(harnessRoot, "_rt", "rt_native.go.txt"))
		if err != nil {
			return "", err
		}
		rtPath := filepath.Join(tmp, strings.ReplaceAll(pd, "/", "_")+"_rt.go")
		os.WriteFile(rtPath, []byte(strings.Replace(string(rt), "package PKG", "package "+pkgName, 1)), 0o644)
		overlay[filepath.Join(repoRoot, pd, "zz_verif_rt.go")] = rtPath
		if pd == pkgDir {
			sort.Strings(harnessNames)
			var sb strings.Builder
			sb.WriteString("package " + pkgName + "\n\nimport \"testing\"\n\nfunc TestVerifReplay(t *testing.T) {\n\tverifRunReplay(map[string]func(){\n")
			for _, h := range harnessNames {
				fmt.Fprintf(&sb, "\t\t%q: %s,\n", h, h)
			}
			sb.WriteString("\t})\n}\n")
			sort.Strings(selftestNames)
			sb.WriteString("\nfunc TestVerifSelftest(t *testing.T) {\n\tverifRunSelftest(map[string]func(a, b, c int64) int64{\n")
			for _, h := range selftestNames {
				fmt.Fprintf(&sb, "\t\t%q: func(a, b, c int64) int64 { return int64(%s(a, b, c)) },\n", h, h)
			}
			sb.WriteString("\t})\n}\n")
			tp := filepath.Join(tmp, "replay_test.go")
			os.WriteFile(tp, []byte(sb.String()), 0o644)
			overlay[filepath.Join(repoRoot, pd, "zz_verif_replay_test.go")] = tp
		}
	}
	ovData, _ := json.Marshal(map[string]interface{}{"Replace": overlay})
	ovPath := filepath.Join(tmp, "overlay.json")
	os.WriteFile(ovPath, ovData, 0o644)
	rpath := filepath.Join(tmp, "payload.json")
	os.WriteFile(rpath, payload, 0o644)

	ctx, cancel := context.WithTimeout(context.Background(), timeout+90*time.Second)
	defer cancel()
	goArgs := []string{"test", "-v", "-vet=off", "-count=1", "-overlay", ovPath, "-run", runPattern,
		"-timeout", fmt.Sprintf("%ds", int(timeout.Seconds()))}
	if nativeRace {
		goArgs = append(goArgs, "-race")
	}
	goArgs = append(goArgs, "./"+pkgDir)
	cmd := exec.CommandContext(ctx, "go", goArgs...)
	cmd.Dir = repoRoot
	cmd.Env = append(os.Environ(), envName+"="+rpath, "GOFLAGS=-mod=mod", "GOPROXY=off", "GOSUMDB=off", "GOTOOLCHAIN=local")
	out, _ := cmd.CombinedOutput()
	text := string(out)
	if strings.Contains(text, "[build failed]") || strings.Contains(text, "[setup failed]") {
		return text, fmt.Errorf("native build failed: %s", tail(text, 800))
	}
	return text, nil
}

func tail(s string, n int) string {
	if len(s) > n {
		return "…" + s[len(s)-n:]
	}
	return s
}

func knownIDs(known map[string]KnownFinding) []string {
	var ks []string
	for k := range known {
		ks = append(ks, k)
	}
	sort.Strings(ks)
	return ks
}

func findingRun(f *Finding, known map[string]KnownFinding) replayRun {
	r := replayRun{Harness: f.Harness, Tier: currentTier, Inputs: f.Inputs, Repeat: 1, Known: knownIDs(known), Kind: f.Kind}
	hasSched := false
	for _, d := range f.Decisions {
		_ = d
	}
	if f.Kind == "deadlock" || f.Kind == "leak" || strings.Contains(f.Msg, "sched") {
		hasSched = true
	}
	if hasSched || f.Kind == "order" {
		r.Repeat = 2000
	}
	switch f.Kind {
	case "assert":
		r.Expect = "assert-failed " + f.AssertID
		if f.Known != "" {
			r.Expect += "@" + f.Known
		}
	case "panic":
		r.Expect = "panic"
	case "nontermination", "deadlock":
		r.Expect = "timeout"
	case "leak":
		r.Expect = "goroutine-leak"
	case "race":
		r.Expect = "race"
	}
	return r
}

func matchExpect(expect, got string, timedOut bool) bool {
	if strings.HasPrefix(expect, "any-failure") {
		// schedule / map-order dependent finding: the native run cannot be forced onto the schedule; any failure of
		// the harness (assertion, panic, deadlock, leak) observed while repeating the real call counts
		return timedOut || (got != "ok" && got != "" && !strings.HasPrefix(got, "no result") && !strings.HasPrefix(got, "assume-violated") && !strings.HasPrefix(got, "input-mismatch")) || strings.Contains(got, "panic:") || strings.Contains(got, "fatal error")
	}
	switch expect {
	case "timeout":
		return timedOut
	case "panic":
		return strings.HasPrefix(got, "panic ")
	}
	return got == expect
}

// replayFindings replays every finding natively and records the outcome in the finding.
func replayFindings(prog *Program, cfg *CheckCfg, pkgDir string, fl []*Finding, known map[string]KnownFinding) (int, error) {
	agreed := 0
	var batch []*Finding
	var single []*Finding
	for _, f := range fl {
		if f.Kind == "nontermination" || f.Kind == "deadlock" || f.Kind == "race" {
			single = append(single, f)
		} else {
			batch = append(batch, f)
		}
	}
	if len(batch) > 0 {
		runs := make([]replayRun, len(batch))
		for i, f := range batch {
			runs[i] = findingRun(f, known)
			if f.orderDependent {
				runs[i].Repeat = 300
				runs[i].Expect = "any-failure (schedule-dependent): " + runs[i].Expect
			}
		}
		res, text, err := runNative(cfg.Packages, pkgDir, runs, 240*time.Second)
		if err != nil {
			return agreed, err
		}
		for i, f := range batch {
			got, ok := res[i]
			if !ok {
				// the batch died (fatal error / timeout) at or before this run: retry alone
				single = append(single, f)
				continue
			}
			f.ReplayOut = got
			if matchExpect(runs[i].Expect, got, false) {
				f.Replayed = "reproduced"
				agreed++
			} else {
				f.Replayed = "not-reproduced"
				_ = text
			}
		}
	}
	for _, f := range single {
		run := findingRun(f, known)
		if f.orderDependent {
			run.Repeat = 300
			run.Expect = "any-failure (schedule-dependent): " + run.Expect
		}
		nativeRace = f.Kind == "race"
		res, text, err := runNative(cfg.Packages, pkgDir, []replayRun{run}, 60*time.Second)
		nativeRace = false
		if err != nil {
			return agreed, err
		}
		got, ok := res[0]
		if f.Kind == "race" {
			// the Go race detector (or the runtime's concurrent-map check) must fire while the harness is repeated
			if strings.Contains(text, "WARNING: DATA RACE") || strings.Contains(text, "concurrent map") {
				f.Replayed = "reproduced"
				f.ReplayOut = "go test -race: data race reported"
				agreed++
			} else {
				f.Replayed = "not-reproduced"
				f.ReplayOut = "go test -race reported no race in " + fmt.Sprint(run.Repeat) + " repetitions"
			}
			continue
		}
		timedOut := !ok && (strings.Contains(text, "test timed out") || strings.Contains(text, "all goroutines are asleep") ||
			strings.Contains(text, "stack overflow") || strings.Contains(text, "goroutine stack exceeds"))
		if !ok {
			got = "no result: " + tail(strings.TrimSpace(text), 300)
			if timedOut {
				got = "timeout (test timed out / deadlock / stack overflow)"
			} else if i := strings.Index(text, "panic:"); i >= 0 {
				got = strings.SplitN(text[i:], "\n", 2)[0]
			}
		}
		f.ReplayOut = got
		if matchExpect(run.Expect, got, timedOut) {
			f.Replayed = "reproduced"
			agreed++
		} else {
			f.Replayed = "not-reproduced"
		}
	}
	return agreed, nil
}

func writeReplayFile(prop string, f *Finding, specs []harnessSpec, tier int) string {
	dir := filepath.Join(evidenceDir(), "replay")
	os.MkdirAll(dir, 0o755)
	name := prop + "-" + sanitize(f.Harness) + "-" + sanitize(f.AssertID)
	if len(name) > 150 {
		name = name[:150]
	}
	path := filepath.Join(dir, name+".json")
	pkgDir := ""
	var pkgs []string
	seen := map[string]bool{}
	for _, s := range specs {
		if s.fn.Name() == f.Harness {
			pkgDir = s.pkgDir
		}
		if !seen[s.pkgDir] {
			seen[s.pkgDir] = true
		}
	}
	checks, _ := loadChecks()
	if c, ok := checks[prop]; ok {
		pkgs = c.Packages
	}
	run := findingRun(f, loadKnown())
	if f.orderDependent {
		run.Repeat = 300
		run.Expect = "any-failure (schedule-dependent): " + run.Expect
	}
	run.Property = prop
	run.PkgDir = pkgDir
	run.Packages = pkgs
	run.Tier = tier
	data, _ := json.MarshalIndent(replayFile{Runs: []replayRun{run}}, "", " ")
	os.WriteFile(path, data, 0o644)
	return path
}

// cmdReplay re-runs a stored counterexample against the real build.
func cmdReplay(args []string) int {
	if len(args) < 1 {
		fmt.Println("usage: symgo replay <file>")
		return 2
	}
	data, err := os.ReadFile(args[0])
	if err != nil {
		fmt.Println("ERROR", err)
		return 2
	}
	var rf replayFile
	if err := json.Unmarshal(data, &rf); err != nil || len(rf.Runs) == 0 {
		fmt.Println("ERROR bad replay file")
		return 2
	}
	run := rf.Runs[0]
	if run.Property == "C09" {
		if _, err := prepareC09(); err != nil {
			fmt.Println("ERROR", err)
			return 2
		}
	}
	currentTier = run.Tier
	res, text, err := runNative(run.Packages, run.PkgDir, []replayRun{run}, 120*time.Second)
	if err != nil {
		fmt.Println("ERROR", err)
		return 2
	}
	got, ok := res[0]
	if os.Getenv("SYMGO_SHOW") != "" {
		fmt.Println(text)
	}
	timedOut := !ok && (strings.Contains(text, "test timed out") || strings.Contains(text, "all goroutines are asleep"))
	fmt.Printf("harness %s expects %q, native result: %q\n", run.Harness, run.Expect, got)
	if matchExpect(run.Expect, got, timedOut) {
		fmt.Printf("VIOLATION property=%s replay=%s\n", run.Property, args[0])
		return 1
	}
	fmt.Println("not reproduced on the current tree")
	return 0
}

// replaySamples runs input vectors of passing paths natively; every run must end without failure.
func replaySamples(cfg *CheckCfg, pkgDir string, harness []string, vectors [][]InputValue, known map[string]KnownFinding) (int, []string, error) {
	runs := make([]replayRun, len(vectors))
	for i := range vectors {
		runs[i] = replayRun{Harness: harness[i], Tier: currentTier, Inputs: vectors[i], Repeat: 1, Known: knownIDs(known)}
	}
	res, text, err := runNative(cfg.Packages, pkgDir, runs, 240*time.Second)
	if err != nil {
		return 0, nil, err
	}
	agreed := 0
	var bad []string
	for i := range runs {
		got, ok := res[i]
		if !ok {
			bad = append(bad, fmt.Sprintf("%s: no native result (%s)", harness[i], tail(strings.TrimSpace(text), 200)))
			continue
		}
		if got == "ok" {
			agreed++
		} else {
			bad = append(bad, fmt.Sprintf("%s: native run of a passing path says %q with inputs %s", harness[i], got, inputsBrief(vectors[i])))
		}
	}
	return agreed, bad, nil
}
