package main

// Path-level execution state: path condition, decisions, inputs, obligations,
// and the replay-DFS driver.

import (
	"fmt"
	"sort"
	"strings"
	"sync"
	"sync/atomic"
	"time"

	"golang.org/x/tools/go/ssa"
)

type abortKind int

const (
	abInfeasible abortKind = iota
	abUnsupported
	abPathEnd  // path ended early (after a panic finding, assume(false), ...)
	abUnwind   // step budget exceeded
	abKilled   // goroutine killed by the scheduler
	abSolver   // solver failure
	abDeadline // harness deadline
)

type pathAbort struct {
	kind abortKind
	msg  string
}

type Decision struct {
	Chosen int
	Alts   []int // untried feasible alternatives
	Tag    string
}

type Input struct {
	Name string
	Kind string // int, u32, u8, bool, string, sched, order
	Var  *Term
}

type Finding struct {
	Property       string
	Harness        string
	AssertID       string
	Kind           string // assert | panic | deadlock | leak | nontermination
	Msg            string
	Inputs         []InputValue
	Known          string // known-finding id if this is within a known region
	Decisions      []int
	Replayed       string // "", "reproduced", "not-reproduced"
	orderDependent bool
	ReplayOut      string
}

type InputValue struct {
	Name  string `json:"name"`
	Kind  string `json:"kind"`
	Value string `json:"value"`
}

type Stats struct {
	Paths        int
	Decisions    int
	Forks        int
	Obligations  int
	TrivialObl   int
	Discharged   int
	Violated     int
	UnknownObl   int
	Steps        int64
	Queries      int
	Sat          int
	Unsat        int
	Unknown      int
	SolverTime   time.Duration
	CVC5IntCalls int
	Infeasible   int
	PanicChecks  int
}

// HarnessRun holds what is shared across all paths of one harness.
type HarnessRun struct {
	Prog          *Program
	Fn            *ssa.Function
	Name          string
	Property      string
	Solver        *Solver
	Stats         Stats
	Findings      map[string]*Finding // by assert id
	Reached       map[string]bool
	Assumes       map[string]bool
	Samples       []string
	Errors        []string // inconclusive reasons
	Deadline      time.Time
	StepBudget    int64
	MaxPaths      int
	FuncsSeen     map[string]bool
	Stubs         map[string]bool
	Known         map[string]KnownFinding
	KnownSeen     map[string]string
	Verbose       bool
	AssertIDs     map[string]int // id -> times checked
	CrossCheck    []*Solver      // optional extra solvers for obligations
	Disagree      []string
	Args          []Value // arguments of the entry function (selftest)
	Result        Value   // result of the entry function on the last path (selftest)
	Results       []Value // results on every completed path (selftest)
	PathSamples   [][]InputValue // input vectors of completed paths, replayed natively (expected: no failure)
	SharedGlobals map[*ssa.Global]*Loc
	SharedInit    map[*ssa.Package]bool
}

// Exec is the state of one path.
type Exec struct {
	H         *HarnessRun
	pc        []*Term
	flushed   int // number of pc terms already asserted in the solver
	decisions []Decision
	pos       int
	inputs    []*Input
	steps     int64
	globals   map[*ssa.Global]*Loc
	pkgInit   map[*ssa.Package]int // 0 none, 1 running, 2 done
	lenient   int                  // >0 while running package initialisers
	mapOrder  bool
	oneSched  bool
	schedPrefix   int
	schedPrefixOn bool
	sched     *Sched
	cur       *Thread
	termID    string // assertion id for non-termination
	termLimit int64
	chanCount int
	wg        map[*Loc]*wgState
	sideTable map[interface{}]interface{}
	touched   map[string]bool
	touchSeen map[*Term]bool
	decided   map[*Term]bool
	stdout    string
	race      bool
	shadow    map[interface{}]*accessInfo
	mutexes   map[*Loc]*mutexState
	atomicVC  map[*Loc]VC
	ranges    map[string][2]int64 // declared range of verifIntIn inputs
}

func (ex *Exec) abort(kind abortKind, format string, args ...interface{}) {
	panic(pathAbort{kind, fmt.Sprintf(format, args...)})
}

func (ex *Exec) unsupported(format string, args ...interface{}) {
	panic(pathAbort{abUnsupported, fmt.Sprintf(format, args...) + ex.whereString()})
}

// whereString names the innermost functions of the current call stack.
func (ex *Exec) whereString() string {
	if ex.cur != nil && len(ex.cur.callStack) > 0 {
		cs := ex.cur.callStack
		n := len(cs)
		lo := n - 5
		if lo < 0 {
			lo = 0
		}
		return " [in " + strings.Join(cs[lo:], " > ") + "]"
	}
	return ""
}

// assume adds c to the path condition; aborts the path if it is constant false.
func (ex *Exec) addPC(c *Term) {
	if c.IsConst() {
		if !c.B {
			ex.abort(abInfeasible, "assume false")
		}
		return
	}
	ex.pc = append(ex.pc, c)
	ex.touch(c)
}

// touch records the input variables constrained by the path condition (beyond their declared range).
func (ex *Exec) touch(t *Term) {
	if ex.touchSeen == nil {
		ex.touchSeen = map[*Term]bool{}
		ex.touched = map[string]bool{}
	}
	if ex.touchSeen[t] {
		return
	}
	ex.touchSeen[t] = true
	if t.Op == "var" {
		ex.touched[t.S] = true
		return
	}
	for _, a := range t.Args {
		ex.touch(a)
	}
}

func (ex *Exec) flushPC() {
	s := ex.H.Solver
	for ex.flushed < len(ex.pc) {
		s.Assert(ex.pc[ex.flushed])
		ex.flushed++
	}
}

func (ex *Exec) inputVars() []*Term {
	vs := make([]*Term, len(ex.inputs))
	for i, in := range ex.inputs {
		vs[i] = in.Var
	}
	return vs
}

// check decides satisfiability of pc ∧ extra.
func (ex *Exec) check(extra *Term, wantModel bool) (SatResult, map[string]*Term) {
	if time.Now().After(ex.H.Deadline) {
		ex.abort(abDeadline, "harness deadline exceeded")
	}
	var vars []*Term
	if wantModel {
		vars = ex.inputVars()
	}
	// route symbolic multiplications to cvc5's integer encoding
	useInt := false
	if extra != nil && containsSymMul(extra, map[*Term]bool{}) {
		useInt = true
	}
	if !useInt {
		seen := map[*Term]bool{}
		for _, c := range ex.pc {
			if containsSymMul(c, seen) {
				useInt = true
				break
			}
		}
	}
	if useInt {
		as := append([]*Term{}, ex.pc...)
		if extra != nil {
			as = append(as, extra)
		}
		start := time.Now()
		r, m, err := OneShotCVC5Int(as, vars, 60000)
		ex.H.Stats.CVC5IntCalls++
		ex.H.Stats.SolverTime += time.Since(start)
		ex.H.Stats.Queries++
		switch r {
		case Sat:
			ex.H.Stats.Sat++
		case Unsat:
			ex.H.Stats.Unsat++
		default:
			ex.H.Stats.Unknown++
			if err != nil {
				ex.H.noteError("cvc5-int: " + err.Error())
			}
		}
		return r, m
	}
	ex.flushPC()
	var extras []*Term
	if extra != nil {
		extras = []*Term{extra}
	}
	r, m, err := ex.H.Solver.Check(extras, vars)
	if err != nil {
		if strings.Contains(err.Error(), "died") {
			ex.abort(abSolver, "%v", err)
		}
		ex.H.noteError(err.Error())
	}
	return r, m
}

func (h *HarnessRun) noteError(s string) {
	if len(s) > 400 {
		s = s[:400]
	}
	for _, e := range h.Errors {
		if e == s {
			return
		}
	}
	if len(h.Errors) < 50 {
		h.Errors = append(h.Errors, s)
	}
}

// branch decides a symbolic condition, forking if both sides are feasible.
func (ex *Exec) branch(c *Term, tag string) (res bool) {
	if c.IsConst() {
		return c.B
	}
	// a condition already decided on this path (same term) needs neither a query nor a decision entry
	if ex.decided == nil {
		ex.decided = map[*Term]bool{}
	}
	inner, neg := c, false
	if c.Op == "not" {
		inner, neg = c.Args[0], true
	}
	if v, ok := ex.decided[inner]; ok {
		return v != neg
	}
	defer func() { ex.decided[inner] = res != neg }()
	if ex.pos < len(ex.decisions) {
		d := ex.decisions[ex.pos]
		ex.pos++
		if d.Chosen == 0 {
			ex.addPC(c)
			return true
		}
		ex.addPC(Not(c))
		return false
	}
	ex.H.Stats.Decisions++
	rt, _ := ex.check(c, false)
	var d Decision
	d.Tag = tag
	if rt == Unsat {
		d.Chosen = 1
	} else {
		rf, _ := ex.check(Not(c), false)
		if rf == Unsat {
			d.Chosen = 0
		} else {
			d.Chosen = 0
			d.Alts = []int{1}
			ex.H.Stats.Forks++
		}
	}
	ex.decisions = append(ex.decisions, d)
	ex.pos++
	if d.Chosen == 0 {
		ex.addPC(c)
		return true
	}
	ex.addPC(Not(c))
	return false
}

// choose picks one of n alternatives, each guarded by conds[i] (nil = always feasible).
func (ex *Exec) choose(n int, conds []*Term, tag string) int {
	if n == 1 && (conds == nil || conds[0] == nil) {
		return 0
	}
	if ex.pos < len(ex.decisions) {
		d := ex.decisions[ex.pos]
		ex.pos++
		if conds != nil && conds[d.Chosen] != nil {
			ex.addPC(conds[d.Chosen])
		}
		return d.Chosen
	}
	ex.H.Stats.Decisions++
	var feas []int
	for i := 0; i < n; i++ {
		if conds == nil || conds[i] == nil {
			feas = append(feas, i)
			continue
		}
		if conds[i].IsConst() {
			if conds[i].B {
				feas = append(feas, i)
			}
			continue
		}
		r, _ := ex.check(conds[i], false)
		if r != Unsat {
			feas = append(feas, i)
		}
	}
	if len(feas) == 0 {
		ex.abort(abInfeasible, "choose: no feasible alternative (%s)", tag)
	}
	d := Decision{Chosen: feas[0], Alts: feas[1:], Tag: tag}
	if len(feas) > 1 {
		ex.H.Stats.Forks++
	}
	ex.decisions = append(ex.decisions, d)
	ex.pos++
	if conds != nil && conds[d.Chosen] != nil {
		ex.addPC(conds[d.Chosen])
	}
	return d.Chosen
}

// concretize forks over the feasible values of an integer term within [lo,hi].
func (ex *Exec) concretize(t *Term, lo, hi int, tag string) int {
	if t.IsConst() {
		return int(t.Signed())
	}
	n := hi - lo + 1
	fast := t.Op == "var" && !ex.touched[t.S] && ex.pos >= len(ex.decisions)
	if _, ranged := ex.ranges[t.S]; !ranged {
		fast = false
	}
	if n <= 0 || (n > 128 && !fast && ex.pos >= len(ex.decisions)) || n > 8192 {
		ex.unsupported("concretize %s: range [%d,%d]", tag, lo, hi)
	}
	conds := make([]*Term, n)
	for i := 0; i < n; i++ {
		conds[i] = Eq(t, BVConst(uint64(int64(lo+i)), t.Sort.W))
	}
	// an input variable that is constrained only by its declared range: every value of the range is feasible
	if t.Op == "var" && !ex.touched[t.S] {
		if r, ok := ex.ranges[t.S]; ok && ex.pos >= len(ex.decisions) {
			var feas []int
			for i := 0; i < n; i++ {
				if int64(lo+i) >= r[0] && int64(lo+i) <= r[1] {
					feas = append(feas, i)
				}
			}
			if len(feas) > 0 {
				ex.H.Stats.Decisions++
				d := Decision{Chosen: feas[0], Alts: feas[1:], Tag: tag}
				if len(feas) > 1 {
					ex.H.Stats.Forks++
				}
				ex.decisions = append(ex.decisions, d)
				ex.pos++
				ex.addPC(conds[d.Chosen])
				return lo + d.Chosen
			}
		}
	}
	return lo + ex.choose(n, conds, tag)
}

func (ex *Exec) newInput(name, kind string, sort Sort) *Term {
	vname := fmt.Sprintf("in%d_%s", len(ex.inputs), sanitize(name))
	v := Var(vname, sort)
	ex.inputs = append(ex.inputs, &Input{Name: name, Kind: kind, Var: v})
	return v
}

func sanitize(s string) string {
	var sb strings.Builder
	for _, r := range s {
		if (r >= 'a' && r <= 'z') || (r >= 'A' && r <= 'Z') || (r >= '0' && r <= '9') || r == '_' {
			sb.WriteRune(r)
		} else {
			sb.WriteByte('_')
		}
	}
	return sb.String()
}

func (ex *Exec) modelToInputs(m map[string]*Term) []InputValue {
	var out []InputValue
	for _, in := range ex.inputs {
		iv := InputValue{Name: in.Name, Kind: in.Kind}
		v := m[in.Var.S]
		if v == nil {
			switch in.Var.Sort.K {
			case KBool:
				v = termFalse
			case KBV:
				v = BVConst(0, in.Var.Sort.W)
			default:
				v = StrConst("")
			}
		}
		switch in.Var.Sort.K {
		case KBool:
			iv.Value = fmt.Sprint(v.B)
		case KBV:
			switch in.Kind {
			case "u32", "u8", "u64":
				iv.Value = fmt.Sprint(v.BV)
			default:
				iv.Value = fmt.Sprint(v.Signed())
			}
		case KString:
			iv.Value = v.S
		}
		out = append(out, iv)
	}
	return out
}

func (ex *Exec) decisionList() []int {
	var ds []int
	for _, d := range ex.decisions {
		ds = append(ds, d.Chosen)
	}
	return ds
}

// recordFinding stores a violation (first per assert id wins).
func (ex *Exec) recordFinding(id, kind, msg string, model map[string]*Term, known string) {
	h := ex.H
	key := id
	if known != "" {
		key = id + "@" + known
	}
	if _, dup := h.Findings[key]; dup {
		return
	}
	f := &Finding{Property: h.Property, Harness: h.Name, AssertID: id, Kind: kind, Msg: msg, Known: known,
		Inputs: ex.modelToInputs(model), Decisions: ex.decisionList()}
	for i := 0; i < ex.pos && i < len(ex.decisions); i++ {
		if t := ex.decisions[i].Tag; t == "sched" || t == "maporder" {
			f.orderDependent = true
		}
	}
	h.Findings[key] = f
	h.Stats.Violated++
}

// obligation checks that cond holds on the current path; kind is "assert" or "panic".
// Returns after assuming cond (so the path continues in the non-violating region).
func (ex *Exec) obligation(id string, cond *Term, kind, msg string) {
	h := ex.H
	h.Stats.Obligations++
	h.AssertIDs[id]++
	if cond.IsConst() && cond.B {
		h.Stats.TrivialObl++
		h.Stats.Discharged++
		return
	}
	neg := Not(cond)
	if _, dup := h.Findings[id]; dup {
		// already have a counterexample for this assertion; just continue in the holding region
		if cond.IsConst() {
			ex.abort(abPathEnd, "assertion %s fails (already recorded)", id)
		}
		ex.assumeChecked(cond)
		return
	}
	var r SatResult
	var m map[string]*Term
	if neg.IsConst() {
		r, m = ex.check(nil, true)
	} else {
		r, m = ex.check(neg, true)
	}
	switch r {
	case Unsat:
		h.Stats.Discharged++
		if len(h.Samples) < 6 {
			h.Samples = append(h.Samples, fmt.Sprintf("path#%d decisions=%v obligation=%s verdict=unsat(holds) pc_size=%d", h.Stats.Paths, ex.decisionList(), id, len(ex.pc)))
		}
		if len(h.CrossCheck) > 0 && !neg.IsConst() {
			ex.crossCheck(id, neg, Unsat)
		}
	case Sat:
		ex.recordFinding(id, kind, msg, m, "")
		if len(h.Samples) < 6 {
			h.Samples = append(h.Samples, fmt.Sprintf("path#%d decisions=%v obligation=%s verdict=sat(VIOLATED)", h.Stats.Paths, ex.decisionList(), id))
		}
		if cond.IsConst() {
			ex.abort(abPathEnd, "assertion %s fails", id)
		}
		ex.assumeChecked(cond)
	default:
		h.Stats.UnknownObl++
		h.noteError("obligation " + id + ": solver unknown")
		if cond.IsConst() {
			ex.abort(abPathEnd, "assertion %s unknown", id)
		}
		ex.assumeChecked(cond)
	}
}

// assumeChecked adds cond to pc and ends the path if that makes it infeasible.
func (ex *Exec) assumeChecked(cond *Term) {
	ex.addPC(cond)
	r, _ := ex.check(nil, false)
	if r == Unsat {
		ex.abort(abInfeasible, "path infeasible after assumption")
	}
}

func (ex *Exec) crossCheck(id string, neg *Term, want SatResult) {
	for _, s := range ex.H.CrossCheck {
		s.Reset()
		for _, c := range ex.pc {
			s.Assert(c)
		}
		r, _, err := s.Check([]*Term{neg}, nil)
		if err != nil || r == Unknown {
			continue
		}
		if r != want {
			ex.H.Disagree = append(ex.H.Disagree, fmt.Sprintf("%s: %s says %v, primary says %v", id, s.name, r, want))
			ex.H.noteError("solver disagreement on " + id)
		}
	}
}

// obligationKnown: assertion with a known-finding region.
func (ex *Exec) obligationKnown(id, kf string, region, cond *Term) {
	h := ex.H
	_, listed := h.Known[kf]
	if !listed {
		ex.obligation(id, cond, "assert", "")
		return
	}
	// (a) outside the region: ordinary obligation
	h.Stats.Obligations++
	h.AssertIDs[id]++
	outside := And(Not(region), Not(cond))
	if !(outside.IsConst() && !outside.B) {
		r, m := ex.check(outside, true)
		switch r {
		case Sat:
			ex.recordFinding(id, "assert", "outside known region "+kf, m, "")
		case Unknown:
			h.Stats.UnknownObl++
			h.noteError("obligation " + id + ": solver unknown")
		default:
			h.Stats.Discharged++
		}
	} else {
		h.Stats.Discharged++
		h.Stats.TrivialObl++
	}
	// (b) inside the region: does the known finding still reproduce?
	inside := And(region, Not(cond))
	if !(inside.IsConst() && !inside.B) {
		if _, seen := h.Findings[id+"@"+kf]; !seen {
			r, m := ex.check(inside, true)
			if r == Sat {
				ex.recordFinding(id, "assert", "known finding "+kf, m, kf)
				h.Stats.Violated-- // not counted as a new violation
			}
		}
	}
	if cond.IsConst() {
		if !cond.B {
			ex.abort(abPathEnd, "assertion %s fails", id)
		}
		return
	}
	ex.assumeChecked(cond)
}

// ---------------------------------------------------------------------------
// DFS driver

type HarnessOutcome struct {
	Run      *HarnessRun
	Complete bool
	Elapsed  time.Duration
}

// Explore enumerates every path of the harness. With workers > 1 the decision tree is split between workers: each
// finished path hands the untried alternatives of its new decisions to a shared queue as fresh prefixes.
func (h *HarnessRun) Explore() *HarnessOutcome {
	return h.ExploreParallel(1, nil)
}

type prefixQueue struct {
	mu      sync.Mutex
	cond    *sync.Cond
	items   [][]Decision
	active  int
	stopped bool
}

func (q *prefixQueue) pop() ([]Decision, bool) {
	q.mu.Lock()
	defer q.mu.Unlock()
	for len(q.items) == 0 && q.active > 0 && !q.stopped {
		q.cond.Wait()
	}
	if q.stopped || len(q.items) == 0 {
		return nil, false
	}
	// depth-first: take the most recently added prefix
	p := q.items[len(q.items)-1]
	q.items = q.items[:len(q.items)-1]
	q.active++
	return p, true
}

func (q *prefixQueue) done(newItems [][]Decision, stop bool) {
	q.mu.Lock()
	q.items = append(q.items, newItems...)
	q.active--
	if stop {
		q.stopped = true
	}
	q.mu.Unlock()
	q.cond.Broadcast()
}

func (h *HarnessRun) ExploreParallel(workers int, newSolver func() (*Solver, error)) *HarnessOutcome {
	start := time.Now()
	if workers < 1 {
		workers = 1
	}
	q := &prefixQueue{items: [][]Decision{nil}}
	q.cond = sync.NewCond(&q.mu)
	shards := []*HarnessRun{h}
	for w := 1; w < workers; w++ {
		sh := *h
		sh.Stats = Stats{}
		sh.Findings = map[string]*Finding{}
		sh.Reached = map[string]bool{}
		sh.Assumes = map[string]bool{}
		sh.FuncsSeen = map[string]bool{}
		sh.Stubs = map[string]bool{}
		sh.AssertIDs = map[string]int{}
		sh.KnownSeen = map[string]string{}
		sh.Samples, sh.Errors, sh.PathSamples, sh.Disagree = nil, nil, nil, nil
		sh.SharedGlobals, sh.SharedInit = nil, nil
		sh.CrossCheck = nil
		s, err := newSolver()
		if err != nil {
			break
		}
		sh.Solver = s
		shards = append(shards, &sh)
	}
	var totalPaths int64
	var wg sync.WaitGroup
	complete := true
	var cmu sync.Mutex
	for _, sh := range shards {
		wg.Add(1)
		go func(sh *HarnessRun) {
			defer wg.Done()
			for {
				prefix, ok := q.pop()
				if !ok {
					return
				}
				stop := false
				if time.Now().After(sh.Deadline) {
					sh.noteError("deadline exceeded before exploration finished")
					stop = true
				}
				if sh.MaxPaths > 0 && atomic.LoadInt64(&totalPaths) >= int64(sh.MaxPaths) {
					sh.noteError(fmt.Sprintf("path limit %d reached before exploration finished", sh.MaxPaths))
					stop = true
				}
				if stop {
					cmu.Lock()
					complete = false
					cmu.Unlock()
					q.done(nil, true)
					return
				}
				ex := &Exec{H: sh, decisions: prefix, globals: map[*ssa.Global]*Loc{}, pkgInit: map[*ssa.Package]int{},
					wg: map[*Loc]*wgState{}, sideTable: map[interface{}]interface{}{}}
				sh.Solver.Reset()
				sh.Stats.Paths++
				atomic.AddInt64(&totalPaths, 1)
				fatal := ex.runPath()
				sh.Stats.Steps += ex.steps
				var next [][]Decision
				if !fatal {
					ds := ex.decisions
					for i := len(ds) - 1; i >= len(prefix); i-- {
						for k := len(ds[i].Alts) - 1; k >= 0; k-- {
							nd := make([]Decision, i+1)
							copy(nd, ds[:i])
							nd[i] = Decision{Chosen: ds[i].Alts[k], Tag: ds[i].Tag}
							for j := 0; j < i; j++ {
								nd[j].Alts = nil
							}
							next = append(next, nd)
						}
					}
					// deepest alternatives last, so that pop() continues depth-first
					for l, r := 0, len(next)-1; l < r; l, r = l+1, r-1 {
						next[l], next[r] = next[r], next[l]
					}
				} else {
					cmu.Lock()
					complete = false
					cmu.Unlock()
				}
				q.done(next, fatal)
			}
		}(sh)
	}
	wg.Wait()
	// merge shards into h
	for _, sh := range shards {
		sh.Stats.Queries += sh.Solver.Queries
		sh.Stats.Sat += sh.Solver.NSat
		sh.Stats.Unsat += sh.Solver.NUnsat
		sh.Stats.Unknown += sh.Solver.NUnknown
		sh.Stats.SolverTime += sh.Solver.Time
		if sh == h {
			continue
		}
		sh.Solver.Close()
		h.Stats.add(&sh.Stats)
		for k, f := range sh.Findings {
			if _, dup := h.Findings[k]; !dup {
				h.Findings[k] = f
			}
		}
		for k := range sh.Reached {
			h.Reached[k] = true
		}
		for k := range sh.Assumes {
			h.Assumes[k] = true
		}
		for k := range sh.FuncsSeen {
			h.FuncsSeen[k] = true
		}
		for k := range sh.Stubs {
			h.Stubs[k] = true
		}
		for k, v := range sh.AssertIDs {
			h.AssertIDs[k] += v
		}
		for _, e := range sh.Errors {
			h.noteError(e)
		}
		if len(h.Samples) < 6 {
			h.Samples = append(h.Samples, sh.Samples...)
		}
		if len(h.PathSamples) < 3 {
			h.PathSamples = append(h.PathSamples, sh.PathSamples...)
		}
		h.Disagree = append(h.Disagree, sh.Disagree...)
	}
	return &HarnessOutcome{Run: h, Complete: complete && len(h.Errors) == 0, Elapsed: time.Since(start)}
}

func (s *Stats) add(o *Stats) {
	s.Paths += o.Paths
	s.Decisions += o.Decisions
	s.Forks += o.Forks
	s.Obligations += o.Obligations
	s.TrivialObl += o.TrivialObl
	s.Discharged += o.Discharged
	s.Violated += o.Violated
	s.UnknownObl += o.UnknownObl
	s.Steps += o.Steps
	s.Queries += o.Queries
	s.Sat += o.Sat
	s.Unsat += o.Unsat
	s.Unknown += o.Unknown
	s.SolverTime += o.SolverTime
	s.CVC5IntCalls += o.CVC5IntCalls
	s.Infeasible += o.Infeasible
	s.PanicChecks += o.PanicChecks
}

// runPath runs one path; returns true when exploration must stop (fatal/inconclusive).
func (ex *Exec) runPath() (fatal bool) {
	h := ex.H
	res := ex.runThreads()
	if res == nil {
		// a completed path: keep a few concrete input vectors for native cross-validation
		if len(h.PathSamples) < 3 && (h.Stats.Paths%7 == 1 || h.Stats.Paths <= 2) {
			func() {
				defer func() { recover() }()
				if r, m := ex.check(nil, true); r == Sat {
					h.PathSamples = append(h.PathSamples, ex.modelToInputs(m))
				}
			}()
		}
		return false
	}
	switch res.kind {
	case abInfeasible:
		h.Stats.Infeasible++
		return false
	case abPathEnd:
		return false
	case abUnsupported:
		h.noteError("unsupported: " + res.msg)
		return true
	case abUnwind:
		h.noteError("unwinding failure: " + res.msg)
		return true
	case abSolver:
		h.noteError("solver failure: " + res.msg)
		return true
	case abDeadline:
		h.noteError(res.msg)
		return true
	}
	return false
}

func sortedKeys(m map[string]bool) []string {
	var ks []string
	for k := range m {
		ks = append(ks, k)
	}
	sort.Strings(ks)
	return ks
}
