package graphutil

// C15 (fixpoint order): StronglyConnectedComponents returns a partition into maximal strongly connected classes in
// callee-first (reverse topological) order - the order the bottom-up escape-summary worklist assumes.

func sccRun(n int) {
	adj := make([][]bool, n)
	for i := range adj {
		adj[i] = make([]bool, n)
		for j := range adj[i] {
			adj[i][j] = verifPick("edge", 0, 1) == 1
		}
	}
	nodes := make([]int, n)
	for i := range nodes {
		nodes[i] = i
	}
	succ := func(v int) []int {
		var out []int
		for j := 0; j < n; j++ {
			if adj[v][j] {
				out = append(out, j)
			}
		}
		return out
	}
	verifTerminatesWithin("scc-terminates", 1000000)
	sccs := StronglyConnectedComponents(nodes, succ)
	verifTerminated()
	verifReach("scc-computed")
	// reachability oracle (reflexive-transitive closure)
	reach := make([][]bool, n)
	for i := range reach {
		reach[i] = make([]bool, n)
		reach[i][i] = true
		for j := 0; j < n; j++ {
			if adj[i][j] {
				reach[i][j] = true
			}
		}
	}
	for k := 0; k < n; k++ {
		for i := 0; i < n; i++ {
			for j := 0; j < n; j++ {
				if reach[i][k] && reach[k][j] {
					reach[i][j] = true
				}
			}
		}
	}
	classOf := make([]int, n)
	count := make([]int, n)
	for i := range classOf {
		classOf[i] = -1
	}
	for ci, scc := range sccs {
		verifAssert("no-empty-class", len(scc) > 0)
		for _, v := range scc {
			count[v]++
			classOf[v] = ci
		}
	}
	for v := 0; v < n; v++ {
		verifAssert("partition-every-node-in-exactly-one-class", count[v] == 1)
	}
	for a := 0; a < n; a++ {
		for b := 0; b < n; b++ {
			if classOf[a] < 0 || classOf[b] < 0 {
				continue
			}
			mutual := reach[a][b] && reach[b][a]
			verifAssert("same-class-iff-mutually-reachable", (classOf[a] == classOf[b]) == mutual)
			if adj[a][b] && classOf[a] != classOf[b] {
				verifAssert("successor-classes-come-first", classOf[b] < classOf[a])
			}
		}
	}
}

// Harness_C15_scc_3: every directed graph on 3 nodes.
func Harness_C15_scc_3() { sccRun(3) }

// Harness_C15_scc_4_T: every directed graph on 4 nodes (thorough).
func Harness_C15_scc_4_T() { sccRun(4) }
