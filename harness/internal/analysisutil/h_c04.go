package analysisutil

import (
	"go/token"
	"go/types"
)

// C04 kernel: the (package, type string) a "type:" specification is matched against is the Go syntax of the type
// of the value (pointer / slice / array / channel / map wrappers in their source order around the named type).
func Harness_C04_type_string() {
	pkg := types.NewPackage("example.com/p", "p")
	named := types.NewNamed(types.NewTypeName(token.NoPos, pkg, "Msg", nil), types.NewStruct(nil, nil), nil)
	depth := verifPick("depth", 0, 3)
	var t types.Type = named
	want := "Msg"
	// wrappers are applied innermost first
	for i := 0; i < depth; i++ {
		switch verifPick("wrapper", 0, 4) {
		case 0:
			t = types.NewPointer(t)
			want = "*" + want
		case 1:
			t = types.NewSlice(t)
			want = "[]" + want
		case 2:
			t = types.NewArray(t, 3)
			want = "[3]" + want
		case 3:
			t = types.NewChan(types.SendRecv, t)
			want = "chan " + want
		default:
			t = types.NewMap(types.Typ[types.String], t)
			want = "map[string]" + want
		}
	}
	gotPkg, gotName, err := FindEltTypePackage(t, "%s")
	verifReach("type-rendered")
	verifAssert("no-error-for-named-element-types", err == nil)
	verifAssert("package-of-the-element-type", gotPkg == "p")
	verifAssert("type-string-is-the-go-syntax-of-the-type", gotName == want)
}
