package funcutil

import (
	"bytes"
	"fmt"
	"sort"
	"strconv"
	"strings"
)

// Differential selftest corpus for the symgo interpreter: every Selftest_* function is executed by the engine on
// concrete input vectors and natively on the same vectors (`symgo selftest`); the results must be identical.
// The functions exercise the SSA instruction kinds, builtins and library intrinsics the harnesses rely on.

func stSmall(x int64, m int64) int { return int(uint64(x) % uint64(m)) }

func Selftest_arith(a, b, c int64) int64 {
	x := int32(a) + int32(b)*3
	y := uint8(b) - uint8(c)
	z := int16(c) << (uint(a) % 20)
	w := uint64(a) >> (uint64(b) % 70)
	s := a>>(uint(c)%70) ^ int64(y) + int64(z)
	return int64(x) ^ s ^ int64(w) ^ int64(int8(a*b)) ^ int64(uint16(c)&^uint16(a))
}

func Selftest_divmod(a, b, c int64) int64 {
	if b == 0 {
		b = 7
	}
	if b == -1 {
		b = -3
	}
	q, r := a/b, a%b
	ub := uint64(c) | 1
	return q*31 + r + int64(uint64(a)/ub) + int64(uint64(a)%ub) + int64(int32(a)/int32(int32(b)|1))
}

func Selftest_compare(a, b, c int64) int64 {
	var r int64
	if a < b {
		r |= 1
	}
	if uint64(a) < uint64(b) {
		r |= 2
	}
	if int8(a) >= int8(c) {
		r |= 4
	}
	if uint32(b) <= uint32(c) {
		r |= 8
	}
	if a == b || b != c {
		r |= 16
	}
	r += int64(min(a, b, c)&0xff) + int64(max(int8(a), int8(b))&0x7)
	return r
}

func Selftest_append_growth(a, b, c int64) int64 {
	n := stSmall(a, 40)
	var s []int64
	var acc int64
	for i := 0; i < n; i++ {
		s = append(s, int64(i)+b)
		acc += int64(cap(s)) * 3
	}
	type pair struct{ x, y int32 }
	var ps []pair
	for i := 0; i < stSmall(c, 20); i++ {
		ps = append(ps, pair{int32(i), int32(c)})
		acc += int64(cap(ps))
	}
	var bs []byte
	bs = append(bs, "hello world, this is a string"[:stSmall(b, 29)]...)
	acc += int64(cap(bs)) + int64(len(bs))
	return acc + int64(len(s))
}

func Selftest_slice_alias(a, b, c int64) int64 {
	base := make([]int64, 4, 8)
	for i := range base {
		base[i] = a + int64(i)
	}
	x := append(base, 100) // in place (cap 8)
	y := append(base, 200) // overwrites x[4]
	z := append(base[:2:2], 300)
	z[0] = -1 // copy: base unaffected
	w := base[1:3]
	w[0] = b
	n := copy(base[2:], []int64{c, c + 1, c + 2, c + 3})
	return x[4] + y[4] + z[2] + base[0] + base[1] + base[2] + int64(n) + int64(len(w)) + int64(cap(w)) + int64(cap(z))
}

func Selftest_maps(a, b, c int64) int64 {
	m := map[int64]int64{}
	for i := int64(0); i < int64(stSmall(a, 9)); i++ {
		m[i*b%5] += i + c
	}
	delete(m, 2)
	v, ok := m[3]
	sum := int64(len(m))
	if ok {
		sum += v
	}
	for k, x := range m {
		sum += k*7 + x
	}
	type key struct {
		s string
		n int
	}
	km := map[key]int{{"a", 1}: 10, {"b", 2}: 20}
	km[key{"a", 1}]++
	sum += int64(km[key{"a", 1}] + km[key{"c", 3}] + len(km))
	var nilMap map[string]int
	sum += int64(nilMap["x"] + len(nilMap))
	clear(m)
	return sum + int64(len(m))
}

func Selftest_strings(a, b, c int64) int64 {
	words := []string{"alpha", "beta", "gamma", "délta", ""}
	s := words[stSmall(a, 5)] + "-" + words[stSmall(b, 5)]
	var acc int64
	for i, r := range s {
		acc += int64(i)*int64(r) + 1
	}
	if len(s) > 3 {
		acc += int64(s[2]) + int64(len(s[1:3]))
	}
	if s < "beta" {
		acc += 1000
	}
	bs := []byte(s)
	if len(bs) > 0 {
		bs[0] = 'X'
	}
	acc += int64(len(string(bs))) + int64(len([]rune(s)))
	acc += int64(strings.Count(s, "a")) + int64(strings.Index(s, "-"))
	if strings.HasPrefix(s, "al") || strings.Contains(s, "mm") {
		acc += 7
	}
	parts := strings.Split(s, "-")
	acc += int64(len(parts)) + int64(len(strings.Join(parts, "++")))
	acc += int64(len(strconv.Itoa(int(c%100000)))) + int64(len(fmt.Sprintf("%d:%s:%v", c%10, words[0], c%2 == 0)))
	return acc
}

type stPoint struct {
	X, Y int64
	Tag  [2]int8
}

type stShape interface {
	Area() int64
	Name() string
}

type stRect struct {
	stPoint
	W, H int64
}

func (r stRect) Area() int64   { return r.W * r.H }
func (r stRect) Name() string  { return "rect" }
func (p *stPoint) Move(d int64) { p.X += d; p.Y -= d }

type stCircle struct{ R int64 }

func (c *stCircle) Area() int64  { return 3 * c.R * c.R }
func (c *stCircle) Name() string { return "circle" }

func Selftest_structs(a, b, c int64) int64 {
	p := stPoint{X: a, Y: b}
	q := p // copy
	q.X++
	q.Tag[1] = int8(c)
	pp := &p
	pp.Move(c % 10)
	arr := [3]stPoint{p, q}
	arr2 := arr // array copy
	arr2[0].X = 99
	r := stRect{stPoint: q, W: a % 11, H: b % 13}
	r.Move(2) // promoted pointer method on addressable value
	px := &arr[1].Y
	*px += 5
	return p.X + p.Y + q.X + int64(q.Tag[1]) + arr[0].X + arr2[0].X + arr[1].Y + r.X + r.Area() + int64(len(arr))
}

func Selftest_interfaces(a, b, c int64) int64 {
	shapes := []stShape{stRect{W: a % 7, H: b % 5}, &stCircle{R: c % 4}, nil}
	var acc int64
	for _, s := range shapes {
		switch v := s.(type) {
		case stRect:
			acc += v.Area() + 1
		case *stCircle:
			acc += v.Area() + 2
			v.R++
		case nil:
			acc += 1000
		}
		if s != nil {
			acc += int64(len(s.Name()))
		}
	}
	var e error
	if a%2 == 0 {
		e = fmt.Errorf("bad %d", a%3)
	}
	if e != nil {
		acc += int64(len(e.Error()))
	}
	var any1, any2 interface{} = int64(3), int64(3)
	if any1 == any2 {
		acc += 5
	}
	if _, ok := any1.(string); !ok {
		acc += 6
	}
	f := shapes[1].Area // method value
	return acc + f()
}

func stVariadic(base int64, xs ...int64) (sum int64, n int) {
	defer func() { sum += base }()
	for _, x := range xs {
		sum += x
	}
	return sum, len(xs)
}

func Selftest_closures_defers(a, b, c int64) (res int64) {
	counter := a % 10
	inc := func(d int64) int64 { counter += d; return counter }
	defer func() { res = res*2 + counter }()
	for i := 0; i < 3; i++ {
		defer func(k int64) { res += k }(int64(i) + b%5)
	}
	s, n := stVariadic(c%9, 1, 2, inc(3))
	s2, n2 := stVariadic(1)
	fs := []func() int64{}
	for i := int64(0); i < 3; i++ {
		fs = append(fs, func() int64 { return i * 10 }) // per-iteration variables (go1.22)
	}
	return s + int64(n) + s2 + int64(n2) + fs[0]() + fs[2]() + inc(1)
}

func Selftest_control(a, b, c int64) int64 {
	var acc int64
outer:
	for i := 0; i < 6; i++ {
		for j := range 5 {
			if int64(i*j) == a%7 {
				continue outer
			}
			if int64(i+j) > 7+b%3 {
				break outer
			}
			acc += int64(i ^ j)
		}
	}
	switch x := c % 5; {
	case x < 0:
		acc -= 3
		fallthrough
	case x == 0:
		acc += 11
	case x == 1, x == 2:
		acc += 13
	default:
		acc += 17
	}
	k := 0
loop:
	if k < 4 {
		acc += int64(k)
		k++
		goto loop
	}
	return acc
}

func stFib(n int) int64 {
	if n < 2 {
		return int64(n)
	}
	return stFib(n-1) + stFib(n-2)
}

func Selftest_generics_sort(a, b, c int64) int64 {
	xs := []int64{a % 9, b % 9, c % 9, 4, -2}
	ys := Map(xs, func(x int64) int64 { return x * 2 })
	sort.Slice(ys, func(i, j int) bool { return ys[i] < ys[j] })
	var acc int64
	for i, y := range ys {
		acc += int64(i+1) * y
	}
	if Contains(xs, 4) {
		acc++
	}
	set := map[int64]bool{}
	for _, x := range xs {
		set[x] = true
	}
	ordered := SetToOrderedSlice(set)
	acc += int64(len(ordered))*100 + ordered[0]
	Reverse(xs)
	return acc + xs[0] + stFib(stSmall(a, 12))
}

func Selftest_goroutines(a, b, c int64) int64 {
	xs := []int64{a % 100, b % 100, c % 100}
	rs := MapParallel(xs, func(x int64) int64 { return x*x + 1 }, stSmall(a, 3))
	ch := make(chan int64, 2)
	ch <- rs[0]
	ch <- rs[1]
	close(ch)
	var acc int64
	for v := range ch {
		acc = acc*3 + v
	}
	return acc + rs[2] + int64(len(rs))
}

func Selftest_pointers(a, b, c int64) int64 {
	x := a
	p := &x
	pp := &p
	**pp += b % 17
	var np *stPoint
	acc := x
	if np == nil {
		np = &stPoint{X: c % 5}
	}
	arr := [4]int64{1, 2, 3, 4}
	sl := arr[1:3]
	sl[0] = b % 3
	ap := &arr
	ap[3] = c % 3
	m := map[string]*stPoint{"k": np}
	m["k"].Y = 9
	return acc + np.X + np.Y + arr[1] + arr[3] + int64(len(ap)) + int64(cap(sl))
}

type stNode int

func (n stNode) String() string { return fmt.Sprintf("n%d", n) }

type stSet []int

func (s stSet) String() string {
	var buf bytes.Buffer
	buf.WriteByte('{')
	for _, x := range s {
		if buf.Len() > 1 {
			buf.WriteByte(' ')
		}
		fmt.Fprintf(&buf, "%d", x)
	}
	buf.WriteByte('}')
	return buf.String()
}

// formatted output: verbs that do / do not consult String(), Fprint* into buffers and builders, map keyed by the
// printed form of a set (the idiom of the pointer analysis' hash-value numbering)
func Selftest_fmt_writers(a, b, c int64) int64 {
	n := stNode(stSmall(a, 50))
	s1 := fmt.Sprintf("%d|%v|%s|%5d|%x", n, n, n, n, int(n))
	var sb strings.Builder
	fmt.Fprintf(&sb, "%s-%d;", s1, stSmall(b, 9))
	fmt.Fprint(&sb, stSmall(c, 7), "x", n)
	fmt.Fprintln(&sb, "end", stSmall(a^b, 11))
	labels := map[string]int{}
	sets := []stSet{{stSmall(a, 3), 5}, {stSmall(b, 3), 5}, {stSmall(c, 3), 5}, {1}, {}}
	for i, s := range sets {
		if _, ok := labels[s.String()]; !ok {
			labels[s.String()] = i + 1
		}
	}
	var h int64
	for _, ch := range sb.String() {
		h = h*31 + int64(ch)
	}
	for _, s := range sets {
		h = h*7 + int64(labels[s.String()])
	}
	return h*13 + int64(len(labels))
}

func stMayPanic(k int, xs []int64) int64 {
	switch k {
	case 0:
		panic("explicit")
	case 1:
		return xs[len(xs)+2] // index out of range
	case 2:
		var p *stPoint
		return p.X // nil dereference
	case 3:
		var i interface{} = "str"
		return int64(i.(int)) // failed type assertion
	}
	return int64(k)
}

func stGuarded(k int, xs []int64) (res int64, recovered bool) {
	defer func() {
		if r := recover(); r != nil {
			recovered = true
			res = -7
			if s, ok := r.(string); ok {
				res -= int64(len(s))
			}
			if e, ok := r.(error); ok && len(e.Error()) > 0 {
				res -= 100
			}
		}
	}()
	res = stMayPanic(k, xs) * 3
	return res, false
}

func stSwallow(k int) (ok bool) {
	// the idiom of escape.CompatibleTypes: a panic of the callee means "true"
	defer func() {
		if x := recover(); x != nil {
			ok = true
		}
	}()
	if k%2 == 0 {
		panic(fmt.Sprintf("bad %d", k))
	}
	return false
}

func stNested(k int, xs []int64) (res int64) {
	defer func() {
		// the inner function already recovered, so nothing is pending here
		if recover() != nil {
			res = -1000
		}
		res++
	}()
	inner := func() (r int64) {
		defer func() { _ = recover() }()
		r = 5
		r += stMayPanic(k, xs)
		return r
	}
	return inner() * 10
}

func stRepanic(k int) (res int64) {
	defer func() {
		if r := recover(); r != nil {
			res = 77
		}
	}()
	func() {
		defer func() {
			if r := recover(); r != nil {
				panic("again") // re-panic from a deferred call: caught by the outer function
			}
		}()
		if k < 2 {
			panic("first")
		}
	}()
	return int64(k)
}

// panics, deferred calls and recover: explicit and run-time panics, named results set by the recovering closure,
// recover outside a panic, nested recovery, re-panic in a deferred call
func Selftest_panic_recover(a, b, c int64) int64 {
	xs := []int64{a, b, c}
	var h int64
	for k := 0; k < 5; k++ {
		r, rec := stGuarded((stSmall(a, 5)+k)%5, xs)
		h = h*31 + r
		if rec {
			h += 3
		}
		if stSwallow(stSmall(b, 4) + k) {
			h ^= 0x55
		}
		h = h*7 + stNested((stSmall(c, 5)+k)%5, xs)
		h = h*3 + stRepanic(k%4)
	}
	if recover() != nil {
		h = -1
	}
	return h
}
