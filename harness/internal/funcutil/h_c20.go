package funcutil

// C20 / C06: MapParallel with goroutines, channels and the WaitGroup interpreted; the scheduler of the engine forks
// over every enabled rendezvous / unblocking, so the assertions hold for every schedule within the bounds.

func c20Run(maxLen, maxRoutines int) {
	n := verifPick("len", 0, maxLen)
	a := make([]int, n)
	for i := range a {
		a[i] = verifInt("elem")
	}
	delta := verifInt("delta")
	routines := verifPick("numRoutines", -1, maxRoutines)
	res := MapParallel(a, func(x int) int { return x + delta }, routines)
	verifReach("returned")
	verifAssert("result-length", len(res) == n)
	for i := 0; i < len(res) && i < n; i++ {
		verifAssert("result-in-input-order", res[i] == a[i]+delta)
	}
	seq := Map(a, func(x int) int { return x + delta })
	for i := 0; i < len(res) && i < len(seq); i++ {
		verifAssert("equals-sequential-map", res[i] == seq[i])
	}
}

// Harness_C20_map_parallel: len <= 2, numRoutines in [-1,2], every schedule.
func Harness_C20_map_parallel() { c20Run(2, 2) }

// Harness_C20_map_parallel_3_T: len <= 3, numRoutines in [-1,3] (thorough).
func Harness_C20_map_parallel_3_T() { c20Run(3, 3) }

// Harness_C06_worker_count: the result does not depend on the number of worker routines.
func Harness_C06_worker_count() {
	n := verifPick("len", 0, 2)
	a := make([]int, n)
	for i := range a {
		a[i] = verifInt("elem")
	}
	r1 := verifPick("numRoutines1", 0, 2)
	r2 := verifPick("numRoutines2", 1, 2)
	f := func(x int) int { return x * 3 }
	res1 := MapParallel(a, f, r1)
	res2 := MapParallel(a, f, r2)
	verifReach("both-returned")
	verifAssert("same-length-for-any-worker-count", len(res1) == len(res2))
	for i := 0; i < len(res1) && i < len(res2); i++ {
		verifAssert("same-result-for-any-worker-count-and-schedule", res1[i] == res2[i])
	}
}
