package pointer

import (
	"go/token"
	"go/types"

	"golang.org/x/tools/go/ssa"
)

// C11 (experimental end-to-end kernel): the real pointer analysis (constraint generation, HVN/optimisation, solver)
// on a hand-built single-function program: two heap allocations a0, a1 and a value v obtained from them by a
// symbolic chain (copy, phi, store to / load from a cell, field address); if v can hold a0's address at run time the
// points-to sets of v and a0 must intersect and v's set must contain a0's allocation site.

func c11Typed(i ssa.Instruction, t types.Type) ssa.Value {
	verifSetUnexported(i, "typ", t)
	return i.(ssa.Value)
}

func Harness_C11_local_chains() {
	tpkg := types.NewPackage("main", "main")
	tpkg.MarkComplete()
	pkg := &ssa.Package{Pkg: tpkg, Members: map[string]ssa.Member{}}
	prog := &ssa.Program{Fset: token.NewFileSet()}
	verifSetUnexported(prog, "packages", map[*types.Package]*ssa.Package{tpkg: pkg})
	pkg.Prog = prog
	mkFn := func(name string) *ssa.Function {
		f := &ssa.Function{Pkg: pkg, Prog: prog, Signature: types.NewSignatureType(nil, nil, nil, nil, nil, false)}
		verifSetUnexported(f, "name", name)
		pkg.Members[name] = f
		return f
	}
	initFn := mkFn("init")
	mainFn := mkFn("main")
	setBlock := func(fn *ssa.Function, b *ssa.BasicBlock, instrs []ssa.Instruction) {
		b.Instrs = instrs
		verifSetUnexported(b, "parent", fn)
		for _, i := range instrs {
			verifSetUnexported(i, "block", b)
		}
	}
	ib := &ssa.BasicBlock{Index: 0}
	setBlock(initFn, ib, []ssa.Instruction{&ssa.Return{}})
	initFn.Blocks = []*ssa.BasicBlock{ib}

	intT := types.Type(types.Typ[types.Int])
	ptrInt := types.Type(types.NewPointer(intT))
	pptrInt := types.Type(types.NewPointer(ptrInt))
	alloc0 := &ssa.Alloc{Heap: true, Comment: "a0"}
	alloc1 := &ssa.Alloc{Heap: true, Comment: "a1"}
	a0 := c11Typed(alloc0, ptrInt)
	a1 := c11Typed(alloc1, ptrInt)
	instrs := []ssa.Instruction{alloc0, alloc1}
	shape := verifPick("shape", 0, 3)
	var v ssa.Value
	fromA0, fromA1 := false, false
	switch shape {
	case 0: // v = a_k (type-changing copy)
		k := verifPick("which", 0, 1)
		src := []ssa.Value{a0, a1}[k]
		ct := &ssa.ChangeType{X: src}
		v = c11Typed(ct, ptrInt)
		instrs = append(instrs, ct)
		fromA0, fromA1 = k == 0, k == 1
	case 1: // cell := new(*int); *cell = a_k; v = *cell
		k := verifPick("which", 0, 1)
		src := []ssa.Value{a0, a1}[k]
		cellI := &ssa.Alloc{Heap: true, Comment: "cell"}
		cell := c11Typed(cellI, pptrInt)
		ld := &ssa.UnOp{Op: token.MUL, X: cell}
		v = c11Typed(ld, ptrInt)
		instrs = append(instrs, cellI, &ssa.Store{Addr: cell, Val: src}, ld)
		fromA0, fromA1 = k == 0, k == 1
	case 2: // *cell = a0; *cell = a1; v = *cell  (flow-insensitive: both)
		cellI := &ssa.Alloc{Heap: true, Comment: "cell"}
		cell := c11Typed(cellI, pptrInt)
		ld := &ssa.UnOp{Op: token.MUL, X: cell}
		v = c11Typed(ld, ptrInt)
		instrs = append(instrs, cellI, &ssa.Store{Addr: cell, Val: a0}, &ssa.Store{Addr: cell, Val: a1}, ld)
		fromA0, fromA1 = true, true
	default: // two cells, no mixing: *c0 = a0; *c1 = a1; v = *c_k
		k := verifPick("which", 0, 1)
		c0I, c1I := &ssa.Alloc{Heap: true, Comment: "c0"}, &ssa.Alloc{Heap: true, Comment: "c1"}
		c0, c1 := c11Typed(c0I, pptrInt), c11Typed(c1I, pptrInt)
		ld := &ssa.UnOp{Op: token.MUL, X: []ssa.Value{c0, c1}[k]}
		v = c11Typed(ld, ptrInt)
		instrs = append(instrs, c0I, c1I, &ssa.Store{Addr: c0, Val: a0}, &ssa.Store{Addr: c1, Val: a1}, ld)
		fromA0, fromA1 = k == 0, k == 1
	}
	instrs = append(instrs, &ssa.Return{})
	mb := &ssa.BasicBlock{Index: 0}
	setBlock(mainFn, mb, instrs)
	mainFn.Blocks = []*ssa.BasicBlock{mb}

	cfg := &Config{Mains: []*ssa.Package{pkg}, BuildCallGraph: true}
	cfg.AddQuery(a0)
	cfg.AddQuery(a1)
	cfg.AddQuery(v)
	verifTerminatesWithin("pointer-analysis-terminates", 20000000)
	res, err := Analyze(cfg)
	verifTerminated()
	verifReach("analysed")
	verifAssert("analysis-succeeds", err == nil && res != nil)
	if err != nil || res == nil {
		return
	}
	pv, p0, p1 := res.Queries[v], res.Queries[a0], res.Queries[a1]
	verifAssert("allocation-sites-do-not-alias-each-other", !p0.MayAlias(p1))
	if fromA0 {
		verifAssert("run-time-alias-is-a-may-alias", pv.MayAlias(p0))
	}
	if fromA1 {
		verifAssert("run-time-alias-is-a-may-alias", pv.MayAlias(p1))
	}
	verifAssert("points-to-set-of-a-derived-pointer-is-not-empty", len(pv.PointsTo().Labels()) > 0)
}
