package defers

import (
	"github.com/awslabs/ar-go-tools/analysis/config"
	"golang.org/x/tools/go/ssa"
)

// C16 harnesses: defer-stack kernels (stackCompare, stackSetUnion, stackPushed, dataflowTransfer, AnalyzeFunction).

func c16Stack(name string, n int) Stack {
	s := make(Stack, n)
	for i := 0; i < n; i++ {
		s[i] = InstrIndices{Block: verifInt(name + ".b"), Ins: verifInt(name + ".i")}
	}
	return s
}

// specLess is an independent lexicographic-then-length comparison (the documented order).
func specCmp(a, b Stack) int {
	n := len(a)
	if len(b) < n {
		n = len(b)
	}
	for i := 0; i < n; i++ {
		if a[i].Block != b[i].Block {
			if a[i].Block < b[i].Block {
				return -1
			}
			return 1
		}
		if a[i].Ins != b[i].Ins {
			if a[i].Ins < b[i].Ins {
				return -1
			}
			return 1
		}
	}
	if len(a) != len(b) {
		if len(a) < len(b) {
			return -1
		}
		return 1
	}
	return 0
}

func specEq(a, b Stack) bool {
	if len(a) != len(b) {
		return false
	}
	eq := true
	for i := range a {
		eq = verifAnd(eq, verifAnd(a[i].Block == b[i].Block, a[i].Ins == b[i].Ins))
	}
	return eq
}

func sign(x int) int {
	if x < 0 {
		return -1
	}
	if x > 0 {
		return 1
	}
	return 0
}

// Harness_C16_L1_compare: stackCompare is a total order consistent with equality.
func Harness_C16_L1_compare() {
	maxLen := 2
	if verifTier() > 0 {
		maxLen = 3
	}
	la := verifIntIn("la", 0, maxLen)
	lb := verifIntIn("lb", 0, maxLen)
	a := c16Stack("a", la)
	b := c16Stack("b", lb)
	r := stackCompare(a, b)
	verifReach("compared")
	verifAssert("cmp-eq-iff-equal", (r == 0) == specEq(a, b))
	verifAssert("cmp-antisym", sign(stackCompare(b, a)) == -sign(r))
	verifAssert("cmp-matches-lexicographic", sign(r) == specCmp(a, b))
}

// Harness_C16_L1_transitive: transitivity of the order on three stacks.
func Harness_C16_L1_transitive() {
	maxLen := 2
	la := verifIntIn("la", 0, maxLen)
	lb := verifIntIn("lb", 0, maxLen)
	lc := verifIntIn("lc", 0, maxLen)
	a := c16Stack("a", la)
	b := c16Stack("b", lb)
	c := c16Stack("c", lc)
	if stackCompare(a, b) <= 0 && stackCompare(b, c) <= 0 {
		verifReach("chain")
		verifAssert("cmp-transitive", stackCompare(a, c) <= 0)
	}
}

// specLess is the documented strict order (lexicographic, then shorter first) written without branches.
func specLess(a, b Stack) bool {
	less := len(a) < len(b)
	n := len(a)
	if len(b) < n {
		n = len(b)
	}
	for i := n - 1; i >= 0; i-- {
		ei := verifAnd(a[i].Block == b[i].Block, a[i].Ins == b[i].Ins)
		li := verifOr(a[i].Block < b[i].Block, verifAnd(a[i].Block == b[i].Block, a[i].Ins < b[i].Ins))
		less = verifOr(li, verifAnd(ei, less))
	}
	return less
}

func specContains(set StackSet, s Stack) bool {
	found := false
	for _, t := range set {
		found = verifOr(found, specEq(t, s))
	}
	return found
}

func specSorted(set StackSet) bool {
	ok := true
	for i := 0; i+1 < len(set); i++ {
		ok = verifAnd(ok, specLess(set[i], set[i+1]))
	}
	return ok
}

func specSubset(a, b StackSet) bool {
	ok := true
	for _, s := range a {
		ok = verifAnd(ok, specContains(b, s))
	}
	return ok
}

func c16Set(name string, maxN, maxLen int) StackSet {
	n := verifIntIn(name+".n", 0, maxN)
	set := make(StackSet, n)
	for i := 0; i < n; i++ {
		l := verifIntIn(name+".len", 0, maxLen)
		set[i] = c16Stack(name, l)
	}
	verifAssume(specSorted(set))
	return set
}

func cloneSet(s StackSet) StackSet {
	c := make(StackSet, len(s))
	for i := range s {
		c[i] = make(Stack, len(s[i]))
		copy(c[i], s[i])
	}
	return c
}

func specSetEq(a, b StackSet) bool {
	if len(a) != len(b) {
		return false
	}
	ok := true
	for i := range a {
		ok = verifAnd(ok, specEq(a[i], b[i]))
	}
	return ok
}

// Harness_C16_L2_union: stackSetUnion returns the sorted duplicate-free union and sameAsA <=> b ⊆ a.
func Harness_C16_L2_union() {
	maxN, maxLen := 2, 1
	if verifTier() > 0 {
		maxN, maxLen = 2, 2
	}
	a := c16Set("a", maxN, maxLen)
	b := c16Set("b", maxN, maxLen)
	a0, b0 := cloneSet(a), cloneSet(b)
	r, same := stackSetUnion(a, b)
	verifReach("union")
	verifAssert("union-sorted-dedup", specSorted(r))
	verifAssert("union-contains-a", specSubset(a, r))
	verifAssert("union-contains-b", specSubset(b, r))
	both := true
	for _, s := range r {
		both = verifAnd(both, verifOr(specContains(a, s), specContains(b, s)))
	}
	verifAssert("union-nothing-else", both)
	verifAssert("union-sameAsA-iff-b-subset-a", same == specSubset(b, a))
	verifAssert("union-inputs-unchanged", verifAnd(specSetEq(a, a0), specSetEq(b, b0)))
}

// Harness_C16_L3_pushed: stackPushed copies: pushing twice on the same stack (with spare capacity) does not alias.
func Harness_C16_L3_pushed() {
	n := verifIntIn("len", 0, 3)
	spare := verifIntIn("spare", 0, 2)
	s := make(Stack, n, n+spare)
	for i := 0; i < n; i++ {
		s[i] = InstrIndices{Block: verifInt("s.b"), Ins: verifInt("s.i")}
	}
	s0 := make(Stack, n)
	copy(s0, s)
	b1, i1, b2, i2 := verifInt("b1"), verifInt("i1"), verifInt("b2"), verifInt("i2")
	r1 := stackPushed(s, b1, i1)
	r2 := stackPushed(s, b2, i2)
	verifReach("pushed")
	verifAssert("pushed-len", verifAnd(len(r1) == n+1, len(r2) == n+1))
	verifAssert("pushed-first-keeps-its-entry", verifAnd(r1[n].Block == b1, r1[n].Ins == i1))
	verifAssert("pushed-second-entry", verifAnd(r2[n].Block == b2, r2[n].Ins == i2))
	pre := true
	for i := 0; i < n; i++ {
		pre = verifAnd(pre, verifAnd(r1[i] == s0[i], r2[i] == s0[i]))
	}
	verifAssert("pushed-prefix", pre)
	verifAssert("pushed-input-unchanged", specEq(s, s0))
	// writing to a result must not be visible through the argument
	if n > 0 {
		r1[0] = InstrIndices{Block: b1 + 1, Ins: i1}
		verifAssert("pushed-no-alias-with-argument", specEq(s, s0))
	}
}

func stackHas(s Stack, blk, ins int) bool {
	has := false
	for _, e := range s {
		has = verifOr(has, verifAnd(e.Block == blk, e.Ins == ins))
	}
	return has
}

// Harness_C16_L3_transfer: the transfer function of Defer / RunDefers / other instructions.
func Harness_C16_L3_transfer() {
	maxN, maxLen := 2, 1
	if verifTier() > 0 {
		maxN, maxLen = 2, 2
	}
	initial := c16Set("s", maxN, maxLen)
	init0 := cloneSet(initial)
	blk, idx := verifInt("blk"), verifInt("ins")
	kind := verifIntIn("kind", 0, 2)
	var instr ssa.Instruction
	switch kind {
	case 0:
		instr = &ssa.Defer{}
	case 1:
		instr = &ssa.RunDefers{}
	default:
		instr = &ssa.Jump{}
	}
	final, repeated := dataflowTransfer(blk, idx, &instr, initial)
	verifReach("transfer")
	verifAssert("transfer-input-unchanged", specSetEq(initial, init0))
	switch kind {
	case 1:
		verifAssert("rundefers-resets-to-single-empty-stack", verifAnd(len(final) == 1, !repeated))
		if len(final) == 1 {
			verifAssert("rundefers-empty-stack", len(final[0]) == 0)
		}
	case 2:
		verifAssert("other-instr-identity", verifAnd(specSetEq(final, initial), !repeated))
	case 0:
		// expected elements
		anyRep := false
		allIn := true
		for _, s := range initial {
			has := stackHas(s, blk, idx)
			anyRep = verifOr(anyRep, has)
			pushed := make(Stack, len(s)+1)
			copy(pushed, s)
			pushed[len(s)] = InstrIndices{Block: blk, Ins: idx}
			allIn = verifAnd(allIn, verifOr(verifAnd(has, specContains(final, s)), verifAnd(!has, specContains(final, pushed))))
		}
		verifAssert("defer-every-expected-stack-present", allIn)
		verifAssert("defer-repeated-iff-some-stack-has-it", repeated == anyRep)
		verifAssert("defer-result-sorted-dedup", specSorted(final))
		onlyExp := true
		for _, f := range final {
			from := false
			for _, s := range initial {
				has := stackHas(s, blk, idx)
				pushed := make(Stack, len(s)+1)
				copy(pushed, s)
				pushed[len(s)] = InstrIndices{Block: blk, Ins: idx}
				from = verifOr(from, verifOr(verifAnd(has, specEq(f, s)), verifAnd(!has, specEq(f, pushed))))
			}
			onlyExp = verifAnd(onlyExp, from)
		}
		verifAssert("defer-nothing-else", onlyExp)
	}
}

// ---- L4: whole function on small CFGs built from struct literals

type c16Block struct {
	hasDefer bool
	term     int // 0 return (with RunDefers), 1 jump, 2 if
	s0, s1   int
}

func c16BuildCFG(n int) (*ssa.Function, []c16Block, []*ssa.RunDefers) {
	shape := make([]c16Block, n)
	blocks := make([]*ssa.BasicBlock, n)
	for i := 0; i < n; i++ {
		blocks[i] = &ssa.BasicBlock{Index: i}
	}
	rds := make([]*ssa.RunDefers, n)
	for i := 0; i < n; i++ {
		sh := &shape[i]
		sh.hasDefer = verifBool("defer")
		sh.term = verifIntIn("term", 0, 2)
		var instrs []ssa.Instruction
		if sh.hasDefer {
			instrs = append(instrs, &ssa.Defer{})
		}
		switch sh.term {
		case 0:
			rd := &ssa.RunDefers{}
			rds[i] = rd
			instrs = append(instrs, rd, &ssa.Return{})
		case 1:
			sh.s0 = verifIntIn("succ", 0, n-1)
			instrs = append(instrs, &ssa.Jump{})
			blocks[i].Succs = []*ssa.BasicBlock{blocks[sh.s0]}
		case 2:
			sh.s0 = verifIntIn("succ", 0, n-1)
			sh.s1 = verifIntIn("succ", 0, n-1)
			instrs = append(instrs, &ssa.If{})
			blocks[i].Succs = []*ssa.BasicBlock{blocks[sh.s0], blocks[sh.s1]}
		}
		blocks[i].Instrs = instrs
	}
	fn := &ssa.Function{Blocks: blocks}
	return fn, shape, rds
}

func c16Succs(sh c16Block) []int {
	switch sh.term {
	case 1:
		return []int{sh.s0}
	case 2:
		return []int{sh.s0, sh.s1}
	}
	return nil
}

// reach[i][j]: j reachable from i in >= 1 steps
func c16Reach(shape []c16Block) [][]bool {
	n := len(shape)
	r := make([][]bool, n)
	for i := range r {
		r[i] = make([]bool, n)
		for _, s := range c16Succs(shape[i]) {
			r[i][s] = true
		}
	}
	for k := 0; k < n; k++ {
		for i := 0; i < n; i++ {
			for j := 0; j < n; j++ {
				if r[i][k] && r[k][j] {
					r[i][j] = true
				}
			}
		}
	}
	return r
}

// c16Paths collects the defer sequences along simple paths from block 0 to target.
func c16Paths(shape []c16Block, cur, target int, visited []bool, acc Stack, out *StackSet) {
	if shape[cur].hasDefer {
		acc = append(acc[0:len(acc):len(acc)], InstrIndices{Block: cur, Ins: 0})
	}
	if cur == target {
		dup := false
		for _, s := range *out {
			if specCmp(s, acc) == 0 {
				dup = true
			}
		}
		if !dup {
			*out = append(*out, acc)
		}
		return
	}
	visited[cur] = true
	for _, s := range c16Succs(shape[cur]) {
		if !visited[s] {
			c16Paths(shape, s, target, visited, acc, out)
		}
	}
	visited[cur] = false
}

func c16Whole(n int) {
	fn, shape, rds := c16BuildCFG(n)
	reach := c16Reach(shape)
	reachable := func(j int) bool { return j == 0 || reach[0][j] }
	expectUnbounded := false
	for i := 0; i < n; i++ {
		if reachable(i) && shape[i].hasDefer && reach[i][i] {
			expectUnbounded = true
		}
	}
	verifTerminatesWithin("analyze-terminates", 400000)
	res := AnalyzeFunction(fn, &config.LogGroup{})
	verifTerminated()
	verifReach("analyzed")
	verifAssert("bounded-iff-no-defer-on-reachable-cycle", res.DeferStackBounded == !expectUnbounded)
	if expectUnbounded {
		return
	}
	for i := 0; i < n; i++ {
		if rds[i] == nil || !reachable(i) {
			continue
		}
		var expected StackSet
		c16Paths(shape, 0, i, make([]bool, n), Stack{}, &expected)
		got := res.RunDeferSets[rds[i]]
		verifAssert("rundefers-set-includes-every-path-stack", specSubset(expected, got))
		verifAssert("rundefers-set-has-no-other-stack", specSubset(got, expected))
		verifAssert("rundefers-set-sorted-dedup", specSorted(got))
	}
}

// Harness_C16_L4_cfg2: every CFG of 2 blocks.
func Harness_C16_L4_cfg2() { c16Whole(2) }

// Harness_C16_L4_cfg3_T: every CFG of 3 blocks (thorough).
func Harness_C16_L4_cfg3_T() { c16Whole(3) }
