package defers

// C16 harnesses: defer-stack kernels (stackCompare, stackSetUnion, stackPushed, dataflowTransfer, AnalyzeFunction).

func c16Stack(name string, n int) Stack {
	s := make(Stack, n)
	for i := 0; i < n; i++ {
		s[i] = InstrIndices{Block: verifInt(name + ".b"), Ins: verifInt(name + ".i")}
	}
	return s
}

// specLess is an independent lexicographic-then-length comparison (the documented order).
func specCmp(a, b Stack) int {
	n := len(a)
	if len(b) < n {
		n = len(b)
	}
	for i := 0; i < n; i++ {
		if a[i].Block != b[i].Block {
			if a[i].Block < b[i].Block {
				return -1
			}
			return 1
		}
		if a[i].Ins != b[i].Ins {
			if a[i].Ins < b[i].Ins {
				return -1
			}
			return 1
		}
	}
	if len(a) != len(b) {
		if len(a) < len(b) {
			return -1
		}
		return 1
	}
	return 0
}

func specEq(a, b Stack) bool {
	if len(a) != len(b) {
		return false
	}
	eq := true
	for i := range a {
		eq = verifAnd(eq, verifAnd(a[i].Block == b[i].Block, a[i].Ins == b[i].Ins))
	}
	return eq
}

func sign(x int) int {
	if x < 0 {
		return -1
	}
	if x > 0 {
		return 1
	}
	return 0
}

// Harness_C16_L1_compare: stackCompare is a total order consistent with equality.
func Harness_C16_L1_compare() {
	maxLen := 2
	if verifTier() > 0 {
		maxLen = 3
	}
	la := verifIntIn("la", 0, maxLen)
	lb := verifIntIn("lb", 0, maxLen)
	a := c16Stack("a", la)
	b := c16Stack("b", lb)
	r := stackCompare(a, b)
	verifReach("compared")
	verifAssert("cmp-eq-iff-equal", (r == 0) == specEq(a, b))
	verifAssert("cmp-antisym", sign(stackCompare(b, a)) == -sign(r))
	verifAssert("cmp-matches-lexicographic", sign(r) == specCmp(a, b))
}

// Harness_C16_L1_transitive: transitivity of the order on three stacks.
func Harness_C16_L1_transitive() {
	maxLen := 2
	la := verifIntIn("la", 0, maxLen)
	lb := verifIntIn("lb", 0, maxLen)
	lc := verifIntIn("lc", 0, maxLen)
	a := c16Stack("a", la)
	b := c16Stack("b", lb)
	c := c16Stack("c", lc)
	if stackCompare(a, b) <= 0 && stackCompare(b, c) <= 0 {
		verifReach("chain")
		verifAssert("cmp-transitive", stackCompare(a, c) <= 0)
	}
}

// specLess is the documented strict order (lexicographic, then shorter first) written without branches.
func specLess(a, b Stack) bool {
	less := len(a) < len(b)
	n := len(a)
	if len(b) < n {
		n = len(b)
	}
	for i := n - 1; i >= 0; i-- {
		ei := verifAnd(a[i].Block == b[i].Block, a[i].Ins == b[i].Ins)
		li := verifOr(a[i].Block < b[i].Block, verifAnd(a[i].Block == b[i].Block, a[i].Ins < b[i].Ins))
		less = verifOr(li, verifAnd(ei, less))
	}
	return less
}

func specContains(set StackSet, s Stack) bool {
	found := false
	for _, t := range set {
		found = verifOr(found, specEq(t, s))
	}
	return found
}

func specSorted(set StackSet) bool {
	ok := true
	for i := 0; i+1 < len(set); i++ {
		ok = verifAnd(ok, specLess(set[i], set[i+1]))
	}
	return ok
}

func specSubset(a, b StackSet) bool {
	ok := true
	for _, s := range a {
		ok = verifAnd(ok, specContains(b, s))
	}
	return ok
}

func c16Set(name string, maxN, maxLen int) StackSet {
	n := verifIntIn(name+".n", 0, maxN)
	set := make(StackSet, n)
	for i := 0; i < n; i++ {
		l := verifIntIn(name+".len", 0, maxLen)
		set[i] = c16Stack(name, l)
	}
	verifAssume(specSorted(set))
	return set
}

func cloneSet(s StackSet) StackSet {
	c := make(StackSet, len(s))
	for i := range s {
		c[i] = make(Stack, len(s[i]))
		copy(c[i], s[i])
	}
	return c
}

func specSetEq(a, b StackSet) bool {
	if len(a) != len(b) {
		return false
	}
	ok := true
	for i := range a {
		ok = verifAnd(ok, specEq(a[i], b[i]))
	}
	return ok
}

// Harness_C16_L2_union: stackSetUnion returns the sorted duplicate-free union and sameAsA <=> b ⊆ a.
func Harness_C16_L2_union() {
	maxN, maxLen := 2, 1
	if verifTier() > 0 {
		maxN, maxLen = 2, 2
	}
	a := c16Set("a", maxN, maxLen)
	b := c16Set("b", maxN, maxLen)
	a0, b0 := cloneSet(a), cloneSet(b)
	r, same := stackSetUnion(a, b)
	verifReach("union")
	verifAssert("union-sorted-dedup", specSorted(r))
	verifAssert("union-contains-a", specSubset(a, r))
	verifAssert("union-contains-b", specSubset(b, r))
	both := true
	for _, s := range r {
		both = verifAnd(both, verifOr(specContains(a, s), specContains(b, s)))
	}
	verifAssert("union-nothing-else", both)
	verifAssert("union-sameAsA-iff-b-subset-a", same == specSubset(b, a))
	verifAssert("union-inputs-unchanged", verifAnd(specSetEq(a, a0), specSetEq(b, b0)))
}

// Harness_C16_L3_pushed: stackPushed copies: pushing twice on the same stack (with spare capacity) does not alias.
func Harness_C16_L3_pushed() {
	n := verifIntIn("len", 0, 3)
	spare := verifIntIn("spare", 0, 2)
	s := make(Stack, n, n+spare)
	for i := 0; i < n; i++ {
		s[i] = InstrIndices{Block: verifInt("s.b"), Ins: verifInt("s.i")}
	}
	s0 := make(Stack, n)
	copy(s0, s)
	b1, i1, b2, i2 := verifInt("b1"), verifInt("i1"), verifInt("b2"), verifInt("i2")
	r1 := stackPushed(s, b1, i1)
	r2 := stackPushed(s, b2, i2)
	verifReach("pushed")
	verifAssert("pushed-len", verifAnd(len(r1) == n+1, len(r2) == n+1))
	verifAssert("pushed-first-keeps-its-entry", verifAnd(r1[n].Block == b1, r1[n].Ins == i1))
	verifAssert("pushed-second-entry", verifAnd(r2[n].Block == b2, r2[n].Ins == i2))
	pre := true
	for i := 0; i < n; i++ {
		pre = verifAnd(pre, verifAnd(r1[i] == s0[i], r2[i] == s0[i]))
	}
	verifAssert("pushed-prefix", pre)
	verifAssert("pushed-input-unchanged", specEq(s, s0))
	// writing to a result must not be visible through the argument
	if n > 0 {
		r1[0] = InstrIndices{Block: b1 + 1, Ins: i1}
		verifAssert("pushed-no-alias-with-argument", specEq(s, s0))
	}
}
