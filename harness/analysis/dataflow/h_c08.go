package dataflow

import (
	"golang.org/x/tools/go/ssa"
)

// K08a: flat-state indexing of FlowInformation (uint32 arithmetic iID*NumValues+vID).
func Harness_C08_getpos() {
	nv := verifU32("NumValues")
	ni := verifU32("NumInstructions")
	a, b := verifU32("valueID1"), verifU32("valueID2")
	c, d := verifU32("instrID1"), verifU32("instrID2")
	// stated bound of the claim: the table NumValues*NumInstructions is addressable with IndexT (uint32)
	total := uint64(nv) * uint64(ni)
	verifAssume(total < (1 << 32))
	verifAssume(verifAnd(a < nv, b < nv))
	verifAssume(verifAnd(c < ni, d < ni))
	v1, v2 := &ssa.Parameter{}, &ssa.Parameter{}
	i1, i2 := &ssa.Jump{}, &ssa.Jump{}
	fi := &FlowInformation{
		NumValues:       IndexT(nv),
		NumInstructions: IndexT(ni),
		ValueID:         map[ssa.Value]IndexT{v1: IndexT(a), v2: IndexT(b)},
		InstrID:         map[ssa.Instruction]IndexT{i1: IndexT(c), i2: IndexT(d)},
	}
	p1, ok1 := fi.GetPos(i1, v1)
	p2, ok2 := fi.GetPos(i2, v2)
	verifReach("getpos")
	verifAssert("getpos-known-pair-ok", verifAnd(ok1, ok2))
	verifAssert("getpos-in-table", uint64(p1) < total)
	verifAssert("getpos-injective", verifImplies(p1 == p2, verifAnd(a == b, c == d)))
	verifAssert("getinstrpos-plus-value-id", fi.GetInstrPos(i1)+IndexT(a) == p1)
	// the slice taken by Pre / makeEdgesAtReturn / ShowAt: [iID*n : iID*n+n] lies in the table and does not wrap
	lo := fi.GetInstrPos(i1)
	hi := lo + fi.NumValues
	verifAssert("instr-row-does-not-wrap", uint64(lo)+uint64(nv) == uint64(hi))
	verifAssert("instr-row-in-table", uint64(hi) <= total)
	_, ok3 := fi.GetPos(&ssa.Jump{}, v1)
	_, ok4 := fi.GetPos(i1, &ssa.Parameter{})
	verifAssert("getpos-unknown-is-not-ok", verifAnd(!ok3, !ok4))
}

// K08b: join of abstract values (mergeInto) is the pointwise union, reports modification exactly, and does not alias.
func Harness_C08_merge() {
	nm, np := 2, 2
	if verifTier() > 0 {
		nm = 3
	}
	marks := []*Mark{{Label: "m0"}, {Label: "m1"}, {Label: "m2"}}[:nm]
	paths := []string{"", ".f", "[*]"}[:np]
	sens := verifBool("path-sensitive")
	v := &ssa.Parameter{}
	a := NewAbstractValue(v, sens)
	b := NewAbstractValue(v, sens)
	inA := make([][]bool, np)
	inB := make([][]bool, np)
	for pi := range paths {
		inA[pi] = make([]bool, nm)
		inB[pi] = make([]bool, nm)
		if !sens && pi > 0 {
			continue
		}
		for mi := range marks {
			if verifBool("inA") {
				inA[pi][mi] = true
				a.add(paths[pi], marks[mi])
			}
			if verifBool("inB") {
				inB[pi][mi] = true
				b.add(paths[pi], marks[mi])
			}
		}
	}
	has := func(x *AbstractValue, pi, mi int) bool {
		if !sens {
			return x.marks[marks[mi]]
		}
		return x.accessMarks[paths[pi]][marks[mi]]
	}
	modified := a.mergeInto(b)
	verifReach("merged")
	expectMod := false
	for pi := range paths {
		if !sens && pi > 0 {
			continue
		}
		for mi := range marks {
			verifAssert("merge-is-pointwise-union", has(b, pi, mi) == (inA[pi][mi] || inB[pi][mi]))
			verifAssert("merge-leaves-source-unchanged", has(a, pi, mi) == inA[pi][mi])
			if inA[pi][mi] && !inB[pi][mi] {
				expectMod = true
			}
		}
	}
	verifAssert("merge-reports-modification-exactly", modified == expectMod)
	verifAssert("merge-again-is-idempotent", !a.mergeInto(b))
	// no aliasing: adding to the target afterwards must not change the source
	fresh := &Mark{Label: "fresh"}
	for pi := range paths {
		if !sens && pi > 0 {
			continue
		}
		b.add(paths[pi], fresh)
		if sens {
			verifAssert("merge-does-not-alias-mark-sets", !a.accessMarks[paths[pi]][fresh])
		} else {
			verifAssert("merge-does-not-alias-mark-sets", !a.marks[fresh])
		}
	}
	// HasMarkAt / MarksAt agree with membership on the root path
	for mi := range marks {
		any := false
		for pi := range paths {
			any = any || has(b, pi, mi)
		}
		verifAssert("hasmarkat-root-sees-every-path", b.HasMarkAt("", marks[mi]) == any)
	}
}
