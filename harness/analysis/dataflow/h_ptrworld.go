package dataflow

import (
	"go/constant"
	"go/token"
	"go/types"

	"golang.org/x/tools/go/ssa"
	"golang.org/x/tools/go/types/typeutil"
)

// A generated family of typed SSA programs for the pointer-analysis / call-graph properties (C11, C12).
//
// Every program moves the address of one heap allocation a_k (k in {0,1}) through a chain of "transports". A transport
// takes the current *int value v and yields a new *int value that, by the semantics of Go, holds the same address in
// the (single, straight-line or both-branch) execution of the program: a copy, a store to and load from a memory
// cell / struct field / slice element / map / channel / interface / global, or a call returning its argument through
// one of the dispatch forms (static, function value, closure, interface method, go, defer). The run-time truth is
// therefore known by construction: every value of the chain refers to allocation a_k, and every recorded call site
// transfers control to its recorded callee.

const (
	ptCopy = iota
	ptCell
	ptFieldF
	ptFieldG
	ptSliceElem
	ptMap
	ptChan
	ptIface
	ptCallDirect
	ptCallFuncValue
	ptCallClosure
	ptCallInvoke
	ptCallSwap
	ptPhi
	ptStructCopy
	ptFieldOfValue
	ptMapRange
	ptSelectRecv
	ptAppend
	ptGlobal
	ptClosureCell
	ptChangeIface
	ptDeferStore
	ptGoStore
	ptInvokeCallback
	ptPhiStruct
	ptCellViaHelper
	ptCallViaLibrary
	ptGlobalViaIface
	ptGlobalViaReturn
	ptNumTransports
)

// VerifNumTransports is the number of transports of the generated program family.
const VerifNumTransports = ptNumTransports

type verifPtrCall struct {
	Site   ssa.CallInstruction
	Callee *ssa.Function
}

type verifPtrWorld struct {
	prog  *ssa.Program
	pkg   *ssa.Package
	tpkg  *types.Package
	funcs map[*ssa.Function]bool
	objs  map[types.Object]ssa.Member
	rtyps typeutil.Map

	intT, elem, P, PP, S, PS, SL, M, CH, E, FN types.Type
	I                                     *types.Interface
	iM, iRun                              *types.Func
	runT                                  [2]*ssa.Function
	namedT                                [2]types.Type
	methT                                 [2]*ssa.Function
	idFns                                 [2]*ssa.Function
	swapFn                                *ssa.Function
	global                                *ssa.Global
	nclo                                  int
	libDo                                 *ssa.Function

	// emission state (current function and block)
	fn     *ssa.Function
	blocks []*ssa.BasicBlock
	cur    []ssa.Instruction
	curB   *ssa.BasicBlock

	A      [2]ssa.Value // the two tracked allocations
	Chain  []ssa.Value  // values that refer to A[k] at run time
	Cells  []ssa.Value  // **int values whose pointee refers to A[k] at run time (after the store)
	Calls  []verifPtrCall
	Params []ssa.Value // parameters / free variables of callees that receive A[k]
}

func (w *verifPtrWorld) newFn(name string, sig *types.Signature) *ssa.Function {
	f := &ssa.Function{Pkg: w.pkg, Prog: w.prog, Signature: sig}
	verifSetUnexported(f, "name", name)
	w.pkg.Members[name] = f
	w.funcs[f] = true
	return f
}

func (w *verifPtrWorld) param(fn *ssa.Function, name string, t types.Type, v *types.Var) *ssa.Parameter {
	p := &ssa.Parameter{}
	if v == nil {
		v = types.NewVar(token.NoPos, w.tpkg, name, t)
	}
	verifSetUnexported(p, "name", name)
	verifSetUnexported(p, "typ", t)
	verifSetUnexported(p, "object", v)
	verifSetUnexported(p, "parent", fn)
	fn.Params = append(fn.Params, p)
	return p
}

func (w *verifPtrWorld) setBlock(fn *ssa.Function, b *ssa.BasicBlock, instrs []ssa.Instruction) {
	b.Instrs = instrs
	verifSetUnexported(b, "parent", fn)
	for _, i := range instrs {
		verifSetUnexported(i, "block", b)
	}
}

// simpleFn builds a one-block function whose body is given.
func (w *verifPtrWorld) simpleFn(fn *ssa.Function, instrs []ssa.Instruction) {
	b := &ssa.BasicBlock{Index: 0}
	w.setBlock(fn, b, instrs)
	fn.Blocks = []*ssa.BasicBlock{b}
}

func (w *verifPtrWorld) sig(params []types.Type, results []types.Type) *types.Signature {
	var ps, rs []*types.Var
	for _, t := range params {
		ps = append(ps, types.NewVar(token.NoPos, w.tpkg, "", t))
	}
	for _, t := range results {
		rs = append(rs, types.NewVar(token.NoPos, w.tpkg, "", t))
	}
	return types.NewSignatureType(nil, nil, nil, types.NewTuple(ps...), types.NewTuple(rs...), false)
}

func (w *verifPtrWorld) beginFn(fn *ssa.Function) {
	w.fn = fn
	w.blocks = nil
	w.curB = &ssa.BasicBlock{Index: 0}
	w.cur = nil
}

func (w *verifPtrWorld) endBlock() {
	w.setBlock(w.fn, w.curB, w.cur)
	w.blocks = append(w.blocks, w.curB)
}

func (w *verifPtrWorld) endFn() {
	w.endBlock()
	w.fn.Blocks = w.blocks
}

func (w *verifPtrWorld) emit(i ssa.Instruction) { w.cur = append(w.cur, i) }

func (w *verifPtrWorld) val(i ssa.Instruction, t types.Type) ssa.Value {
	verifSetUnexported(i, "typ", t)
	w.emit(i)
	return i.(ssa.Value)
}

func (w *verifPtrWorld) alloc(elem types.Type, comment string) ssa.Value {
	return w.val(&ssa.Alloc{Heap: true, Comment: comment}, types.NewPointer(elem))
}

func (w *verifPtrWorld) load(addr ssa.Value, t types.Type) ssa.Value {
	return w.val(&ssa.UnOp{Op: token.MUL, X: addr}, t)
}

func (w *verifPtrWorld) store(addr, v ssa.Value) { w.emit(&ssa.Store{Addr: addr, Val: v}) }

func (w *verifPtrWorld) intConst(n int64) ssa.Value {
	return ssa.NewConst(constant.MakeInt64(n), w.intT)
}

func (w *verifPtrWorld) call(fnVal ssa.Value, args []ssa.Value, t types.Type, callee *ssa.Function) ssa.Value {
	c := &ssa.Call{}
	c.Call.Value = fnVal
	c.Call.Args = args
	v := w.val(c, t)
	w.Calls = append(w.Calls, verifPtrCall{c, callee})
	return v
}

func verifNewPtrWorld(mode int) *verifPtrWorld {
	structElem := mode >= 1
	w := &verifPtrWorld{funcs: map[*ssa.Function]bool{}, objs: map[types.Object]ssa.Member{}}
	w.tpkg = types.NewPackage("main", "main")
	w.tpkg.MarkComplete()
	w.pkg = &ssa.Package{Pkg: w.tpkg, Members: map[string]ssa.Member{}}
	w.prog = &ssa.Program{Fset: token.NewFileSet()}
	verifSetUnexported(w.prog, "packages", map[*types.Package]*ssa.Package{w.tpkg: w.pkg})
	verifSetUnexported(w.prog, "imported", map[string]*ssa.Package{})
	verifSetUnexported(w.prog, "mode", ssa.BuildSerially) // Program.Build() is a no-op on these packages; keep it sequential
	w.pkg.Prog = w.prog

	w.intT = types.Typ[types.Int]
	w.elem = w.intT
	w.P = types.NewPointer(w.intT)
	if structElem {
		// type N struct{ next *N }
		named := types.NewNamed(types.NewTypeName(token.NoPos, w.tpkg, "N", nil), nil, nil)
		w.P = types.NewPointer(named)
		named.SetUnderlying(types.NewStruct([]*types.Var{types.NewField(token.NoPos, w.tpkg, "next", w.P, false)}, nil))
		w.elem = named
		if mode == 2 {
			// the tracked allocations are cells holding a *N: elem = *N, P = **N
			w.elem = w.P
			w.P = types.NewPointer(w.elem)
		}
		if mode == 3 {
			// the transported data is a string (no pointer involved in the data itself)
			w.elem = nil
			w.P = types.Typ[types.String]
		}
		if mode == 4 {
			// the tracked allocations are cells holding a string: elem = string, P = *string
			w.elem = types.Typ[types.String]
			w.P = types.NewPointer(w.elem)
		}
	}
	w.PP = types.NewPointer(w.P)
	w.S = types.NewStruct([]*types.Var{
		types.NewField(token.NoPos, w.tpkg, "f", w.P, false),
		types.NewField(token.NoPos, w.tpkg, "g", w.P, false)}, nil)
	w.PS = types.NewPointer(w.S)
	w.SL = types.NewSlice(w.P)
	w.M = types.NewMap(w.intT, w.P)
	w.CH = types.NewChan(types.SendRecv, w.P)
	w.E = types.NewInterfaceType(nil, nil).Complete()
	fnSig := w.sig([]types.Type{w.P}, []types.Type{w.P})
	w.FN = fnSig

	// init
	initFn := w.newFn("init", w.sig(nil, nil))
	w.simpleFn(initFn, []ssa.Instruction{&ssa.Return{}})

	// id0, id1 : func(p *int) *int { return p }
	for k := 0; k < 2; k++ {
		f := w.newFn([]string{"id0", "id1"}[k], w.sig([]types.Type{w.P}, []types.Type{w.P}))
		p := w.param(f, "p", w.P, nil)
		w.simpleFn(f, []ssa.Instruction{&ssa.Return{Results: []ssa.Value{p}}})
		w.idFns[k] = f
	}
	// swap(p, q *int) (*int, *int) { return q, p }
	w.swapFn = w.newFn("swap", w.sig([]types.Type{w.P, w.P}, []types.Type{w.P, w.P}))
	{
		p := w.param(w.swapFn, "p", w.P, nil)
		q := w.param(w.swapFn, "q", w.P, nil)
		w.simpleFn(w.swapFn, []ssa.Instruction{&ssa.Return{Results: []ssa.Value{q, p}}})
	}
	// interface I { M(*int) *int } and two implementations T0, T1 (empty structs) whose M returns its argument
	w.iM = types.NewFunc(token.NoPos, w.tpkg, "M", fnSig)
	// unexported method  run(s S, f func(*int) *int, p *int)  : calls f(p) and stores the result into the global; the
	// by-value struct parameter occupies several nodes of the pointer analysis' parameter block
	runSig := w.sig([]types.Type{w.S, w.FN, w.P}, nil)
	w.iRun = types.NewFunc(token.NoPos, w.tpkg, "run", runSig)
	w.I = types.NewInterfaceType([]*types.Func{w.iM, w.iRun}, nil).Complete()
	var recvT []*types.Var
	for k := 0; k < 2; k++ {
		name := []string{"T0", "T1"}[k]
		tn := types.NewTypeName(token.NoPos, w.tpkg, name, nil)
		named := types.NewNamed(tn, types.NewStruct(nil, nil), nil)
		recv := types.NewVar(token.NoPos, w.tpkg, "t", named)
		pv := types.NewVar(token.NoPos, w.tpkg, "p", w.P)
		msig := types.NewSignatureType(recv, nil, nil, types.NewTuple(pv), types.NewTuple(types.NewVar(token.NoPos, w.tpkg, "", w.P)), false)
		mobj := types.NewFunc(token.NoPos, w.tpkg, "M", msig)
		named.AddMethod(mobj)
		f := &ssa.Function{Pkg: w.pkg, Prog: w.prog, Signature: msig}
		verifSetUnexported(f, "name", "M")
		verifSetUnexported(f, "object", mobj)
		w.funcs[f] = true
		w.param(f, "t", named, recv)
		p := w.param(f, "p", w.P, pv)
		w.simpleFn(f, []ssa.Instruction{&ssa.Return{Results: []ssa.Value{p}}})
		w.objs[mobj] = f
		w.namedT[k] = named
		w.methT[k] = f
		w.rtyps.Set(named, true)
		recvT = append(recvT, recv)
	}
	// var G *int
	gv := types.NewVar(token.NoPos, w.tpkg, "G", w.P)
	w.global = &ssa.Global{Pkg: w.pkg}
	verifSetUnexported(w.global, "name", "G")
	verifSetUnexported(w.global, "typ", w.PP)
	verifSetUnexported(w.global, "object", gv)
	w.pkg.Members["G"] = w.global
	w.objs[gv] = w.global
	// a library package whose import path starts with "runtime/" :  func Do(f func(*T) *T, p *T) *T { return f(p) }
	{
		ltp := types.NewPackage("runtime/pprof", "pprof")
		ltp.MarkComplete()
		lpkg := &ssa.Package{Pkg: ltp, Members: map[string]ssa.Member{}, Prog: w.prog}
		pk := map[*types.Package]*ssa.Package{w.tpkg: w.pkg, ltp: lpkg}
		verifSetUnexported(w.prog, "packages", pk)
		do := &ssa.Function{Pkg: lpkg, Prog: w.prog, Signature: w.sig([]types.Type{w.FN, w.P}, []types.Type{w.P})}
		verifSetUnexported(do, "name", "Do")
		lpkg.Members["Do"] = do
		w.funcs[do] = true
		fp := w.param(do, "f", w.FN, nil)
		pp := w.param(do, "p", w.P, nil)
		c := &ssa.Call{}
		c.Call.Value = fp
		c.Call.Args = []ssa.Value{pp}
		verifSetUnexported(c, "typ", w.P)
		w.simpleFn(do, []ssa.Instruction{c, &ssa.Return{Results: []ssa.Value{c}}})
		linit := &ssa.Function{Pkg: lpkg, Prog: w.prog, Signature: w.sig(nil, nil)}
		verifSetUnexported(linit, "name", "init")
		lpkg.Members["init"] = linit
		w.funcs[linit] = true
		w.simpleFn(linit, []ssa.Instruction{&ssa.Return{}})
		verifSetUnexported(lpkg, "objects", map[types.Object]ssa.Member{})
		w.libDo = do
	}
	for k := 0; k < 2; k++ {
		named := w.namedT[k].(*types.Named)
		sv := types.NewVar(token.NoPos, w.tpkg, "s", w.S)
		fv := types.NewVar(token.NoPos, w.tpkg, "f", w.FN)
		pv := types.NewVar(token.NoPos, w.tpkg, "p", w.P)
		rsig := types.NewSignatureType(recvT[k], nil, nil, types.NewTuple(sv, fv, pv), nil, false)
		robj := types.NewFunc(token.NoPos, w.tpkg, "run", rsig)
		named.AddMethod(robj)
		f := &ssa.Function{Pkg: w.pkg, Prog: w.prog, Signature: rsig}
		verifSetUnexported(f, "name", "run")
		verifSetUnexported(f, "object", robj)
		w.funcs[f] = true
		w.param(f, "t", named, recvT[k])
		w.param(f, "s", w.S, sv)
		fp := w.param(f, "f", w.FN, fv)
		pp := w.param(f, "p", w.P, pv)
		c := &ssa.Call{}
		c.Call.Value = fp
		c.Call.Args = []ssa.Value{pp}
		verifSetUnexported(c, "typ", w.P)
		w.simpleFn(f, []ssa.Instruction{c, &ssa.Store{Addr: w.global, Val: c}, &ssa.Return{}})
		w.objs[robj] = f
		w.runT[k] = f
	}
	return w
}

// closure builds  func() *int { return fv }  (byCell=false) or  func() *int { return *fv }  (byCell=true).
func (w *verifPtrWorld) closure(byCell bool) (*ssa.Function, *ssa.FreeVar) {
	w.nclo++
	f := w.newFn([]string{"clo1", "clo2", "clo3", "clo4", "clo5", "clo6", "clo7", "clo8"}[w.nclo-1], w.sig(nil, []types.Type{w.P}))
	t := w.P
	if byCell {
		t = w.PP
	}
	fv := &ssa.FreeVar{}
	verifSetUnexported(fv, "name", "fv")
	verifSetUnexported(fv, "typ", t)
	verifSetUnexported(fv, "parent", f)
	f.FreeVars = []*ssa.FreeVar{fv}
	if byCell {
		ld := &ssa.UnOp{Op: token.MUL, X: fv}
		verifSetUnexported(ld, "typ", w.P)
		w.simpleFn(f, []ssa.Instruction{ld, &ssa.Return{Results: []ssa.Value{ld}}})
	} else {
		w.simpleFn(f, []ssa.Instruction{&ssa.Return{Results: []ssa.Value{fv}}})
	}
	return f, fv
}

// storer builds  func(p *int, c **int) { *c = p }
func (w *verifPtrWorld) storer(name string) (*ssa.Function, ssa.Value) {
	f := w.newFn(name, w.sig([]types.Type{w.P, w.PP}, nil))
	p := w.param(f, "p", w.P, nil)
	c := w.param(f, "c", w.PP, nil)
	w.simpleFn(f, []ssa.Instruction{&ssa.Store{Addr: c, Val: p}, &ssa.Return{}})
	return f, p
}

// transport emits instructions moving v through form t and returns the new value holding the same address;
// variant selects between two equivalent targets (which id function / implementation / field).
func (w *verifPtrWorld) transport(t int, v ssa.Value, other ssa.Value, variant int) ssa.Value {
	switch t {
	case ptCopy:
		return w.val(&ssa.ChangeType{X: v}, w.P)
	case ptCell:
		c := w.alloc(w.P, "cell")
		w.store(c, v)
		w.Cells = append(w.Cells, c)
		return w.load(c, w.P)
	case ptFieldF, ptFieldG:
		s := w.alloc(w.S, "s")
		idx := t - ptFieldF
		fa := w.val(&ssa.FieldAddr{X: s, Field: idx}, w.PP)
		w.store(fa, v)
		// the other field holds the other allocation
		fo := w.val(&ssa.FieldAddr{X: s, Field: 1 - idx}, w.PP)
		w.store(fo, other)
		fb := w.val(&ssa.FieldAddr{X: s, Field: idx}, w.PP)
		w.Cells = append(w.Cells, fa, fb)
		return w.load(fb, w.P)
	case ptSliceElem:
		sl := w.val(&ssa.MakeSlice{Len: w.intConst(2), Cap: w.intConst(2)}, w.SL)
		e := w.val(&ssa.IndexAddr{X: sl, Index: w.intConst(0)}, w.PP)
		w.store(e, v)
		sl2 := w.val(&ssa.Slice{X: sl}, w.SL)
		e2 := w.val(&ssa.IndexAddr{X: sl2, Index: w.intConst(0)}, w.PP)
		w.Cells = append(w.Cells, e, e2)
		return w.load(e2, w.P)
	case ptMap:
		m := w.val(&ssa.MakeMap{}, w.M)
		w.emit(&ssa.MapUpdate{Map: m, Key: w.intConst(0), Value: v})
		return w.val(&ssa.Lookup{X: m, Index: w.intConst(0)}, w.P)
	case ptChan:
		ch := w.val(&ssa.MakeChan{Size: w.intConst(1)}, w.CH)
		w.emit(&ssa.Send{Chan: ch, X: v})
		return w.val(&ssa.UnOp{Op: token.ARROW, X: ch}, w.P)
	case ptIface:
		e := w.val(&ssa.MakeInterface{X: v}, w.E)
		return w.val(&ssa.TypeAssert{X: e, AssertedType: w.P}, w.P)
	case ptCallDirect:
		f := w.idFns[variant]
		w.Params = append(w.Params, f.Params[0])
		return w.call(f, []ssa.Value{v}, w.P, f)
	case ptCallFuncValue:
		f := w.idFns[variant]
		fc := w.alloc(w.FN, "fcell")
		w.store(fc, f)
		fv := w.load(fc, w.FN)
		w.Params = append(w.Params, f.Params[0])
		return w.call(fv, []ssa.Value{v}, w.P, f)
	case ptCallClosure:
		f, fvar := w.closure(false)
		mc := w.val(&ssa.MakeClosure{Fn: f, Bindings: []ssa.Value{v}}, f.Signature)
		w.Params = append(w.Params, fvar)
		return w.call(mc, nil, w.P, f)
	case ptCallInvoke:
		tp := w.alloc(w.namedT[variant], "recv")
		tv := w.load(tp, w.namedT[variant])
		iv := w.val(&ssa.MakeInterface{X: tv}, w.I)
		c := &ssa.Call{}
		c.Call.Value = iv
		c.Call.Method = w.iM
		c.Call.Args = []ssa.Value{v}
		r := w.val(c, w.P)
		w.Calls = append(w.Calls, verifPtrCall{c, w.methT[variant]})
		w.Params = append(w.Params, w.methT[variant].Params[1])
		return r
	case ptCallSwap:
		var args []ssa.Value
		if variant == 0 {
			args = []ssa.Value{v, other}
		} else {
			args = []ssa.Value{other, v}
		}
		tup := w.call(w.swapFn, args, w.swapFn.Signature.Results(), w.swapFn)
		w.Params = append(w.Params, w.swapFn.Params[variant])
		return w.val(&ssa.Extract{Tuple: tup, Index: 1 - variant}, w.P)
	case ptPhi:
		// if cond { } else { } ; r = phi(v, other)
		cond := ssa.NewConst(constant.MakeBool(true), types.Typ[types.Bool])
		w.emit(&ssa.If{Cond: cond})
		b0 := w.curB
		w.endBlock()
		bT := &ssa.BasicBlock{Index: len(w.blocks)}
		bF := &ssa.BasicBlock{Index: len(w.blocks) + 1}
		bJ := &ssa.BasicBlock{Index: len(w.blocks) + 2}
		b0.Succs = []*ssa.BasicBlock{bT, bF}
		bT.Preds, bF.Preds = []*ssa.BasicBlock{b0}, []*ssa.BasicBlock{b0}
		bT.Succs, bF.Succs = []*ssa.BasicBlock{bJ}, []*ssa.BasicBlock{bJ}
		bJ.Preds = []*ssa.BasicBlock{bT, bF}
		w.curB, w.cur = bT, []ssa.Instruction{&ssa.Jump{}}
		w.endBlock()
		w.curB, w.cur = bF, []ssa.Instruction{&ssa.Jump{}}
		w.endBlock()
		w.curB, w.cur = bJ, nil
		edges := []ssa.Value{v, other}
		if variant == 1 {
			edges = []ssa.Value{other, v}
		}
		return w.val(&ssa.Phi{Edges: edges}, w.P)
	case ptStructCopy:
		s1 := w.alloc(w.S, "s1")
		s2 := w.alloc(w.S, "s2")
		f1 := w.val(&ssa.FieldAddr{X: s1, Field: variant}, w.PP)
		w.store(f1, v)
		sv := w.load(s1, w.S)
		w.store(s2, sv)
		f2 := w.val(&ssa.FieldAddr{X: s2, Field: variant}, w.PP)
		w.Cells = append(w.Cells, f1, f2)
		return w.load(f2, w.P)
	case ptFieldOfValue:
		s1 := w.alloc(w.S, "s1")
		f1 := w.val(&ssa.FieldAddr{X: s1, Field: variant}, w.PP)
		w.store(f1, v)
		sv := w.load(s1, w.S)
		return w.val(&ssa.Field{X: sv, Field: variant}, w.P)
	case ptMapRange:
		m := w.val(&ssa.MakeMap{}, w.M)
		w.emit(&ssa.MapUpdate{Map: m, Key: w.intConst(0), Value: v})
		it := w.val(&ssa.Range{X: m}, types.NewTuple()) // opaque iterator type; never inspected for maps
		tup := w.val(&ssa.Next{Iter: it}, types.NewTuple(
			types.NewVar(token.NoPos, nil, "ok", types.Typ[types.Bool]),
			types.NewVar(token.NoPos, nil, "k", w.intT),
			types.NewVar(token.NoPos, nil, "v", w.P)))
		return w.val(&ssa.Extract{Tuple: tup, Index: 2}, w.P)
	case ptSelectRecv:
		ch := w.val(&ssa.MakeChan{Size: w.intConst(1)}, w.CH)
		w.emit(&ssa.Send{Chan: ch, X: v})
		if variant == 1 {
			// a receive from a channel of integers listed before the receive of the pointer
			stop := w.val(&ssa.MakeChan{Size: w.intConst(1)}, types.NewChan(types.SendRecv, w.intT))
			sel := w.val(&ssa.Select{States: []*ssa.SelectState{{Dir: types.RecvOnly, Chan: stop}, {Dir: types.RecvOnly, Chan: ch}}, Blocking: true}, types.NewTuple(
				types.NewVar(token.NoPos, nil, "index", w.intT),
				types.NewVar(token.NoPos, nil, "ok", types.Typ[types.Bool]),
				types.NewVar(token.NoPos, nil, "r0", w.intT),
				types.NewVar(token.NoPos, nil, "r1", w.P)))
			return w.val(&ssa.Extract{Tuple: sel, Index: 3}, w.P)
		}
		sel := w.val(&ssa.Select{States: []*ssa.SelectState{{Dir: types.RecvOnly, Chan: ch}}, Blocking: true}, types.NewTuple(
			types.NewVar(token.NoPos, nil, "index", w.intT),
			types.NewVar(token.NoPos, nil, "ok", types.Typ[types.Bool]),
			types.NewVar(token.NoPos, nil, "r0", w.P)))
		return w.val(&ssa.Extract{Tuple: sel, Index: 2}, w.P)
	case ptAppend:
		arr := w.alloc(types.NewArray(w.P, 1), "varargs")
		e := w.val(&ssa.IndexAddr{X: arr, Index: w.intConst(0)}, w.PP)
		w.store(e, v)
		tail := w.val(&ssa.Slice{X: arr}, w.SL)
		b := &ssa.Builtin{}
		verifSetUnexported(b, "name", "append")
		verifSetUnexported(b, "sig", w.sig([]types.Type{w.SL, w.SL}, []types.Type{w.SL}))
		c := &ssa.Call{}
		c.Call.Value = b
		c.Call.Args = []ssa.Value{ssa.NewConst(nil, w.SL), tail}
		res := w.val(c, w.SL)
		e2 := w.val(&ssa.IndexAddr{X: res, Index: w.intConst(0)}, w.PP)
		w.Cells = append(w.Cells, e, e2)
		return w.load(e2, w.P)
	case ptGlobal:
		// G = v; then either a direct load of G or deref(&G). A global that is only ever the address operand of
		// loads and stores gets no value node in the pointer analysis (loads / stores of globals are resolved
		// directly to the global's object), so no query exists for it; no other SSA value can hold &G in that case.
		w.store(w.global, v)
		if variant == 0 {
			return w.load(w.global, w.P)
		}
		var f *ssa.Function
		if m, ok := w.pkg.Members["deref"]; ok {
			f = m.(*ssa.Function)
		} else {
			f = w.newFn("deref", w.sig([]types.Type{w.PP}, []types.Type{w.P}))
			c := w.param(f, "c", w.PP, nil)
			ld := &ssa.UnOp{Op: token.MUL, X: c}
			verifSetUnexported(ld, "typ", w.P)
			w.simpleFn(f, []ssa.Instruction{ld, &ssa.Return{Results: []ssa.Value{ld}}})
		}
		w.Cells = append(w.Cells, w.global, f.Params[0])
		return w.call(f, []ssa.Value{w.global}, w.P, f)
	case ptClosureCell:
		c := w.alloc(w.P, "captured")
		w.store(c, v)
		f, _ := w.closure(true)
		mc := w.val(&ssa.MakeClosure{Fn: f, Bindings: []ssa.Value{c}}, f.Signature)
		w.Cells = append(w.Cells, c)
		return w.call(mc, nil, w.P, f)
	case ptChangeIface:
		tp := w.alloc(w.S, "boxed")
		fa := w.val(&ssa.FieldAddr{X: tp, Field: variant}, w.PP)
		w.store(fa, v)
		iv := w.val(&ssa.MakeInterface{X: tp}, w.E)
		ev := w.val(&ssa.ChangeInterface{X: iv}, w.E)
		back := w.val(&ssa.TypeAssert{X: ev, AssertedType: w.PS, CommaOk: true}, types.NewTuple(
			types.NewVar(token.NoPos, nil, "value", w.PS),
			types.NewVar(token.NoPos, nil, "ok", types.Typ[types.Bool])))
		ps := w.val(&ssa.Extract{Tuple: back, Index: 0}, w.PS)
		fb := w.val(&ssa.FieldAddr{X: ps, Field: variant}, w.PP)
		w.Cells = append(w.Cells, fa, fb)
		return w.load(fb, w.P)
	case ptPhiStruct:
		// s1.<f|g> = v ; s2.<f|g> = other ; r = phi(*s1, *s2) (a struct-typed phi) ; q = r.<f|g>
		s1 := w.alloc(w.S, "s1")
		s2 := w.alloc(w.S, "s2")
		w.store(w.val(&ssa.FieldAddr{X: s1, Field: variant}, w.PP), v)
		w.store(w.val(&ssa.FieldAddr{X: s2, Field: variant}, w.PP), other)
		sv1 := w.load(s1, w.S)
		sv2 := w.load(s2, w.S)
		cond := ssa.NewConst(constant.MakeBool(true), types.Typ[types.Bool])
		w.emit(&ssa.If{Cond: cond})
		b0 := w.curB
		w.endBlock()
		bT := &ssa.BasicBlock{Index: len(w.blocks)}
		bF := &ssa.BasicBlock{Index: len(w.blocks) + 1}
		bJ := &ssa.BasicBlock{Index: len(w.blocks) + 2}
		b0.Succs = []*ssa.BasicBlock{bT, bF}
		bT.Preds, bF.Preds = []*ssa.BasicBlock{b0}, []*ssa.BasicBlock{b0}
		bT.Succs, bF.Succs = []*ssa.BasicBlock{bJ}, []*ssa.BasicBlock{bJ}
		bJ.Preds = []*ssa.BasicBlock{bT, bF}
		w.curB, w.cur = bT, []ssa.Instruction{&ssa.Jump{}}
		w.endBlock()
		w.curB, w.cur = bF, []ssa.Instruction{&ssa.Jump{}}
		w.endBlock()
		w.curB, w.cur = bJ, nil
		r := w.val(&ssa.Phi{Edges: []ssa.Value{sv1, sv2}}, w.S)
		return w.val(&ssa.Field{X: r, Field: variant}, w.P)
	case ptCellViaHelper:
		// two cells read through the same small helper  func deref(c **T) *T { return *c }  (a function the pointer
		// analysis analyses once per call site): one cell holds the other allocation, one holds v
		var f *ssa.Function
		if m, ok := w.pkg.Members["deref"]; ok {
			f = m.(*ssa.Function)
		} else {
			f = w.newFn("deref", w.sig([]types.Type{w.PP}, []types.Type{w.P}))
			c := w.param(f, "c", w.PP, nil)
			ld := &ssa.UnOp{Op: token.MUL, X: c}
			verifSetUnexported(ld, "typ", w.P)
			w.simpleFn(f, []ssa.Instruction{ld, &ssa.Return{Results: []ssa.Value{ld}}})
		}
		c0 := w.alloc(w.P, "cellOther")
		c1 := w.alloc(w.P, "cellV")
		w.store(c0, other)
		w.store(c1, v)
		var q ssa.Value
		if variant == 0 {
			w.call(f, []ssa.Value{c0}, w.P, f)
			q = w.call(f, []ssa.Value{c1}, w.P, f)
		} else {
			q = w.call(f, []ssa.Value{c1}, w.P, f)
			w.call(f, []ssa.Value{c0}, w.P, f)
		}
		w.Cells = append(w.Cells, c1, f.Params[0])
		return q
	case ptCallViaLibrary:
		// q = pprof.Do(id_k, v) : the callback is invoked by a function of a package whose path starts with "runtime/"
		cb := w.idFns[variant]
		q := w.call(w.libDo, []ssa.Value{cb, v}, w.P, w.libDo)
		w.Calls = append(w.Calls, verifPtrCall{w.libDo.Blocks[0].Instrs[0].(*ssa.Call), cb})
		w.Params = append(w.Params, w.libDo.Params[1], cb.Params[0])
		return q
	case ptGlobalViaIface:
		// setG(v) (a function storing its argument into G) ; var e any = &G ; q = *(e.(*T))
		w.call(w.setG(), []ssa.Value{v}, types.NewTuple(), w.setG())
		e := w.val(&ssa.MakeInterface{X: w.global}, w.E)
		pp := w.val(&ssa.TypeAssert{X: e, AssertedType: w.PP}, w.PP)
		w.Cells = append(w.Cells, w.global, pp)
		return w.load(pp, w.P)
	case ptGlobalViaReturn:
		// setG(v) ; q = *getG()  with  func getG() *T { return &G }
		var f *ssa.Function
		if m, ok := w.pkg.Members["getG"]; ok {
			f = m.(*ssa.Function)
		} else {
			f = w.newFn("getG", w.sig(nil, []types.Type{w.PP}))
			w.simpleFn(f, []ssa.Instruction{&ssa.Return{Results: []ssa.Value{w.global}}})
		}
		w.call(w.setG(), []ssa.Value{v}, types.NewTuple(), w.setG())
		pp := w.call(f, nil, w.PP, f)
		w.Cells = append(w.Cells, w.global, pp)
		return w.load(pp, w.P)
	case ptInvokeCallback:
		// var i I = T_k{} ; i.run(id_k', v)  (result-less interface call taking a function value) ; q = G
		tp := w.alloc(w.namedT[variant], "recv")
		tv := w.load(tp, w.namedT[variant])
		iv := w.val(&ssa.MakeInterface{X: tv}, w.I)
		cb := w.idFns[1-variant]
		c := &ssa.Call{}
		c.Call.Value = iv
		c.Call.Method = w.iRun
		sp := w.alloc(w.S, "opts")
		w.store(w.val(&ssa.FieldAddr{X: sp, Field: 1}, w.PP), other)
		c.Call.Args = []ssa.Value{w.load(sp, w.S), cb, v}
		w.val(c, types.NewTuple())
		run := w.runT[variant]
		w.Calls = append(w.Calls, verifPtrCall{c, run})
		w.Calls = append(w.Calls, verifPtrCall{run.Blocks[0].Instrs[0].(*ssa.Call), cb})
		w.Params = append(w.Params, run.Params[3], cb.Params[0])
		w.Cells = append(w.Cells, w.global)
		// a second, direct use of G as a value keeps a value node for it
		return w.load(w.val(&ssa.ChangeType{X: w.global}, w.PP), w.P)
	case ptDeferStore, ptGoStore:
		// defer put(v, c) / go put(v, c) ; the cell is read afterwards (after the deferred call has run, resp. in an
		// execution where the goroutine has already stored)
		name := "putd"
		if t == ptGoStore {
			name = "putg"
		}
		var f *ssa.Function
		if m, ok := w.pkg.Members[name]; ok {
			f = m.(*ssa.Function)
		} else {
			f, _ = w.storer(name)
		}
		c := w.alloc(w.P, "out")
		var ci ssa.CallInstruction
		if t == ptDeferStore {
			d := &ssa.Defer{}
			d.Call.Value = f
			d.Call.Args = []ssa.Value{v, c}
			w.emit(d)
			w.emit(&ssa.RunDefers{})
			ci = d
		} else {
			g := &ssa.Go{}
			g.Call.Value = f
			g.Call.Args = []ssa.Value{v, c}
			w.emit(g)
			ci = g
		}
		w.Calls = append(w.Calls, verifPtrCall{ci, f})
		w.Params = append(w.Params, f.Params[0])
		w.Cells = append(w.Cells, c)
		return w.load(c, w.P)
	}
	panic("unknown transport")
}

// verifBuildPtrChain builds the program: main allocates a0, a1, moves a_k through the transports ts (the transports
// from position split on are executed inside a callee mid(p, q *int) *int that main calls statically), and stores
// the final value into a fresh cell.
func verifBuildPtrChain(ts []int, variants []int, k int, split int) *verifPtrWorld {
	w := verifNewPtrWorld(0)
	mainFn := w.newFn("main", w.sig(nil, nil))
	var midFn *ssa.Function
	if split < len(ts) {
		midFn = w.newFn("mid", w.sig([]types.Type{w.P, w.P}, []types.Type{w.P}))
	}
	w.beginFn(mainFn)
	w.A[0] = w.alloc(w.elem, "a0")
	w.A[1] = w.alloc(w.elem, "a1")
	v, other := w.A[k], w.A[1-k]
	w.Chain = append(w.Chain, v)
	for i := 0; i < len(ts) && i < split; i++ {
		v = w.transport(ts[i], v, other, variants[i])
		w.Chain = append(w.Chain, v)
	}
	if midFn != nil {
		// save main's emission state, emit mid, come back
		mBlocks, mCur, mCurB := w.blocks, w.cur, w.curB
		w.beginFn(midFn)
		p := w.param(midFn, "p", w.P, nil)
		q := w.param(midFn, "q", w.P, nil)
		w.Params = append(w.Params, p)
		var mv ssa.Value = p
		for i := split; i < len(ts); i++ {
			mv = w.transport(ts[i], mv, q, variants[i])
			w.Chain = append(w.Chain, mv)
		}
		w.emit(&ssa.Return{Results: []ssa.Value{mv}})
		w.endFn()
		w.fn, w.blocks, w.cur, w.curB = mainFn, mBlocks, mCur, mCurB
		v = w.call(midFn, []ssa.Value{v, other}, w.P, midFn)
		w.Chain = append(w.Chain, v)
	}
	out := w.alloc(w.P, "result")
	w.store(out, v)
	w.Cells = append(w.Cells, out)
	w.emit(&ssa.Return{})
	w.endFn()
	verifSetUnexported(w.pkg, "objects", w.objs)
	verifSetUnexported(w.prog, "runtimeTypes", w.rtyps)
	return w
}

// ---------------------------------------------------------------------------------------------------------------
// Concurrent program family for the escape / locality properties (C13, C14).
//
// main allocates obj := new(N) (type N struct{ next *N }), moves its address through transports (as above), makes one
// value of the chain reachable from another goroutine through a leak form - the goroutine writes obj.next - and then
// accesses obj.next itself through a value of the chain. The access and the goroutine's write touch the same memory
// cell without synchronisation, so by construction the access instruction touches memory reachable from another
// goroutine (and the race detector could report it).

const (
	lkGo = iota
	lkGlobal
	lkChan
	lkClosure
	lkHolder
	lkCallee
	lkCalleeDefer
	lkInvoke
	lkFuncValue
	lkInterior
	lkNumLeaks
	lkNone = -1
)

const (
	acStore = iota
	acLoad
	acCalleeStore
	acCalleeTwoPathsParam // touch2(h, q) with h.f == q : the callee stores through its second parameter
	acCalleeTwoPathsField // touch3(q, h) with h.f == q : the callee stores through the pointer loaded from h.f
	acNumAccesses
)

// VerifRacyAccess is an instruction that touches shared memory by construction; Via is the call instruction of main
// through which the enclosing function is reached (nil: the function is main or a goroutine entry).
type VerifRacyAccess struct {
	Instr ssa.Instruction
	Fn    *ssa.Function
	Via   *ssa.Call
}

type VerifShareWorld struct {
	Prog   *ssa.Program
	Funcs  map[*ssa.Function]bool
	Main   *ssa.Function
	Racy   []VerifRacyAccess
	Leaked bool
}

// writeNext emits  p.next = p  and returns the store.
func (w *verifPtrWorld) writeNext(p ssa.Value) *ssa.Store {
	fa := w.val(&ssa.FieldAddr{X: p, Field: 0}, w.PP)
	st := &ssa.Store{Addr: fa, Val: p}
	w.emit(st)
	return st
}

// fnWith builds a one-block function with the given parameter types whose body is emitted by body.
func (w *verifPtrWorld) fnWith(name string, params []types.Type, body func(ps []ssa.Value)) *ssa.Function {
	if m, ok := w.pkg.Members[name]; ok {
		return m.(*ssa.Function)
	}
	f := w.newFn(name, w.sig(params, nil))
	sFn, sBlocks, sCur, sCurB := w.fn, w.blocks, w.cur, w.curB
	w.beginFn(f)
	var ps []ssa.Value
	for _, t := range params {
		ps = append(ps, w.param(f, "p", t, nil))
	}
	body(ps)
	w.emit(&ssa.Return{})
	w.endFn()
	w.fn, w.blocks, w.cur, w.curB = sFn, sBlocks, sCur, sCurB
	return f
}

func (w *verifPtrWorld) goCall(f ssa.Value, args ...ssa.Value) {
	g := &ssa.Go{}
	g.Call.Value = f
	g.Call.Args = args
	w.emit(g)
}

func (w *verifPtrWorld) plainCall(f ssa.Value, args ...ssa.Value) *ssa.Call {
	c := &ssa.Call{}
	c.Call.Value = f
	c.Call.Args = args
	w.val(c, types.NewTuple())
	return c
}

func VerifBuildShareProgram(ts, variants []int, leak, leakAt, access, accessAt int) *VerifShareWorld {
	w := verifNewPtrWorld(1)
	out := &VerifShareWorld{Prog: w.prog, Funcs: w.funcs}
	racy := func(i ssa.Instruction, f *ssa.Function, via *ssa.Call) {
		out.Racy = append(out.Racy, VerifRacyAccess{i, f, via})
	}
	var writerStore *ssa.Store
	writer := w.fnWith("writer", []types.Type{w.P}, func(ps []ssa.Value) { writerStore = w.writeNext(ps[0]) })
	mainFn := w.newFn("main", w.sig(nil, nil))
	out.Main = mainFn
	w.beginFn(mainFn)
	w.A[0] = w.alloc(w.elem, "obj")
	w.A[1] = w.alloc(w.elem, "other")
	v := w.A[0]
	w.Chain = append(w.Chain, v)
	for i := range ts {
		v = w.transport(ts[i], v, w.A[1], variants[i])
		w.Chain = append(w.Chain, v)
	}
	r := w.Chain[leakAt%len(w.Chain)]
	q := w.Chain[accessAt%len(w.Chain)]
	out.Leaked = leak != lkNone
	switch leak {
	case lkGo:
		w.goCall(writer, r)
		racy(writerStore, writer, nil)
	case lkGlobal:
		var st *ssa.Store
		gw := w.fnWith("gwriter", nil, func([]ssa.Value) { st = w.writeNext(w.load(w.global, w.P)) })
		w.store(w.global, r)
		w.goCall(gw)
		racy(st, gw, nil)
	case lkChan:
		var st *ssa.Store
		cw := w.fnWith("cwriter", []types.Type{w.CH}, func(ps []ssa.Value) {
			st = w.writeNext(w.val(&ssa.UnOp{Op: token.ARROW, X: ps[0]}, w.P))
		})
		ch := w.val(&ssa.MakeChan{Size: w.intConst(1)}, w.CH)
		w.goCall(cw, ch)
		w.emit(&ssa.Send{Chan: ch, X: r})
		racy(st, cw, nil)
	case lkClosure:
		f := w.newFn("clwriter", w.sig(nil, nil))
		fv := &ssa.FreeVar{}
		verifSetUnexported(fv, "name", "fv")
		verifSetUnexported(fv, "typ", w.P)
		verifSetUnexported(fv, "parent", f)
		f.FreeVars = []*ssa.FreeVar{fv}
		sFn, sBlocks, sCur, sCurB := w.fn, w.blocks, w.cur, w.curB
		w.beginFn(f)
		st := w.writeNext(fv)
		w.emit(&ssa.Return{})
		w.endFn()
		w.fn, w.blocks, w.cur, w.curB = sFn, sBlocks, sCur, sCurB
		mc := w.val(&ssa.MakeClosure{Fn: f, Bindings: []ssa.Value{r}}, f.Signature)
		w.goCall(mc)
		racy(st, f, nil)
	case lkHolder:
		var st *ssa.Store
		hw := w.fnWith("hwriter", []types.Type{w.PS}, func(ps []ssa.Value) {
			fa := w.val(&ssa.FieldAddr{X: ps[0], Field: 0}, w.PP)
			st = w.writeNext(w.load(fa, w.P))
		})
		h := w.alloc(w.S, "holder")
		w.goCall(hw, h)
		w.store(w.val(&ssa.FieldAddr{X: h, Field: 0}, w.PP), r)
		racy(st, hw, nil)
	case lkInterior:
		// obj.next = other; leakNext(obj) with  func leakNext(p *N) { t := p.next; go pwriter(&t.next) }  and
		// func pwriter(pp **N) { *pp = nil } : the goroutine writes other.next, which main then accesses
		var st *ssa.Store
		pw := w.fnWith("pwriter", []types.Type{w.PP}, func(ps []ssa.Value) {
			st = &ssa.Store{Addr: ps[0], Val: ssa.NewConst(nil, w.P)}
			w.emit(st)
		})
		ln := w.fnWith("leakNext", []types.Type{w.P}, func(ps []ssa.Value) {
			t := w.load(w.val(&ssa.FieldAddr{X: ps[0], Field: 0}, w.PP), w.P)
			w.goCall(pw, w.val(&ssa.FieldAddr{X: t, Field: 0}, w.PP))
		})
		w.store(w.val(&ssa.FieldAddr{X: r, Field: 0}, w.PP), w.A[1])
		w.plainCall(ln, r)
		racy(st, pw, nil)
		q = w.A[1]
	case lkCallee, lkCalleeDefer, lkInvoke, lkFuncValue:
		share := w.fnWith("share", []types.Type{w.P}, func(ps []ssa.Value) { w.goCall(writer, ps[0]) })
		racy(writerStore, writer, nil)
		switch leak {
		case lkCallee:
			w.plainCall(share, r)
		case lkCalleeDefer:
			ds := w.fnWith("dshare", []types.Type{w.P}, func(ps []ssa.Value) {
				d := &ssa.Defer{}
				d.Call.Value = share
				d.Call.Args = []ssa.Value{ps[0]}
				w.emit(d)
				w.emit(&ssa.RunDefers{})
			})
			w.plainCall(ds, r)
		case lkFuncValue:
			fc := w.alloc(share.Signature, "fcell")
			w.store(fc, share)
			w.plainCall(w.load(fc, share.Signature), r)
		case lkInvoke:
			// T0.M(p) { share(p); return p } : the leak happens inside an interface method implementation
			m := w.methT[0]
			p := m.Params[1]
			c := &ssa.Call{}
			c.Call.Value = share
			c.Call.Args = []ssa.Value{p}
			verifSetUnexported(c, "typ", types.Type(types.NewTuple()))
			w.simpleFn(m, []ssa.Instruction{c, &ssa.Return{Results: []ssa.Value{p}}})
			tp := w.alloc(w.namedT[0], "recv")
			tv := w.load(tp, w.namedT[0])
			iv := w.val(&ssa.MakeInterface{X: tv}, w.I)
			ic := &ssa.Call{}
			ic.Call.Value = iv
			ic.Call.Method = w.iM
			ic.Call.Args = []ssa.Value{r}
			w.val(ic, w.P)
		}
	}
	switch access {
	case acStore:
		racy(w.writeNext(q), mainFn, nil)
	case acLoad:
		fa := w.val(&ssa.FieldAddr{X: q, Field: 0}, w.PP)
		ld := w.load(fa, w.P)
		racy(ld.(ssa.Instruction), mainFn, nil)
		out.useLoad(w, ld)
	case acCalleeStore:
		var st *ssa.Store
		touch := w.fnWith("touch", []types.Type{w.P}, func(ps []ssa.Value) { st = w.writeNext(ps[0]) })
		c := w.plainCall(touch, q)
		racy(st, touch, c)
	case acCalleeTwoPathsParam, acCalleeTwoPathsField:
		// the accessed object is reachable from two arguments of the call: through h.f and directly
		h := w.alloc(w.S, "twoPaths")
		w.store(w.val(&ssa.FieldAddr{X: h, Field: 0}, w.PP), q)
		var st *ssa.Store
		if access == acCalleeTwoPathsParam {
			t2 := w.fnWith("touch2", []types.Type{w.PS, w.P}, func(ps []ssa.Value) { st = w.writeNext(ps[1]) })
			racy(st, t2, w.plainCall(t2, h, q))
		} else {
			t3 := w.fnWith("touch3", []types.Type{w.P, w.PS}, func(ps []ssa.Value) {
				st = w.writeNext(w.load(w.val(&ssa.FieldAddr{X: ps[1], Field: 0}, w.PP), w.P))
			})
			racy(st, t3, w.plainCall(t3, q, h))
		}
	}
	w.emit(&ssa.Return{})
	w.endFn()
	verifSetUnexported(w.pkg, "objects", w.objs)
	verifSetUnexported(w.prog, "runtimeTypes", w.rtyps)
	return out
}

// useLoad keeps the loaded value alive as an operand (stores it into a fresh cell).
func (o *VerifShareWorld) useLoad(w *verifPtrWorld, v ssa.Value) {
	c := w.alloc(w.P, "sinkcell")
	w.store(c, v)
}

// ---------------------------------------------------------------------------------------------------------------
// Source-to-sink flows through memory shared between goroutines (C13).
//
// main obtains x := source() (a *N), optionally moves it through a transport, and stores it into a cell that a
// reader goroutine (which loads the cell and passes the value to sink) can reach; the cell is shared before or after
// the store, through one of the share forms. In the schedule where the reader's load happens after main's store the
// source's data reaches the sink, so the flow is execution-observable by construction.

const (
	shGoArg = iota // go reader(cell)
	shGlobal       // GC = cell (a package-level **N) ; go greader()
	shClosure      // go func(){ sink(*cell) }()
	shHolder       // h.c = cell ; go hreader(h)
	shChanOfCell   // ch <- cell ; go creader(ch)
	shNumShares
)

type VerifFlowWorld struct {
	Prog     *ssa.Program
	Funcs    map[*ssa.Function]bool
	Main     *ssa.Function
	Source   *ssa.Call
	Sink     *ssa.Call
	SinkFn   *ssa.Function
	SourceFn *ssa.Function
}

// VerifBuildFlowProgram2 is VerifBuildFlowProgram with the cell's address moved through the transports cellTs.
func VerifBuildFlowProgram2(share int, shareFirst bool, cellTs, cellVariants []int) *VerifFlowWorld {
	return verifBuildFlowProgram(share, shareFirst, -1, 0, 0, cellTs, cellVariants)
}

func VerifBuildFlowProgram(share int, shareFirst bool, t int, variant int, storeForm int, cellT int, cellVariant int) *VerifFlowWorld {
	if cellT < 0 {
		return verifBuildFlowProgram(share, shareFirst, t, variant, storeForm, nil, nil)
	}
	return verifBuildFlowProgram(share, shareFirst, t, variant, storeForm, []int{cellT}, []int{cellVariant})
}

// VerifFlowStringData makes the next flow program built carry a string instead of a *N (set and reset by harnesses).
var VerifFlowStringData bool

func verifBuildFlowProgram(share int, shareFirst bool, t int, variant int, storeForm int, cellTs, cellVariants []int) *VerifFlowWorld {
	cellT := -1
	if len(cellTs) > 0 {
		cellT = cellTs[0]
	}
	stringData := VerifFlowStringData
	mode := 1
	if stringData {
		mode = 3
	}
	if cellT >= 0 {
		mode = 2 // the transports move the cell's address instead of the data
		if stringData {
			mode = 4
		}
		t = -1
	}
	w := verifNewPtrWorld(mode)
	out := &VerifFlowWorld{Prog: w.prog, Funcs: w.funcs}
	// D: type of the data (*N or string); C: type of the cell's address; CC: pointer to C
	D, C := w.P, w.PP
	if mode == 2 || mode == 4 {
		D, C = w.elem, w.P
	}
	CC := types.Type(types.NewPointer(C))
	PPP := CC
	// func source() *N { return new(N) } ; func sink(p *N) {}
	src := w.newFn("source", w.sig(nil, []types.Type{D}))
	{
		sFn, sBlocks, sCur, sCurB := w.fn, w.blocks, w.cur, w.curB
		w.beginFn(src)
		var a ssa.Value
		if stringData {
			a = ssa.NewConst(constant.MakeString("secret"), D)
		} else {
			a = w.alloc(D.(*types.Pointer).Elem(), "secret")
		}
		w.emit(&ssa.Return{Results: []ssa.Value{a}})
		w.endFn()
		w.fn, w.blocks, w.cur, w.curB = sFn, sBlocks, sCur, sCurB
	}
	sink := w.fnWith("sink", []types.Type{D}, func([]ssa.Value) {})
	out.SourceFn, out.SinkFn = src, sink
	sinkCall := func(v ssa.Value) {
		c := w.plainCall(sink, v)
		out.Sink = c
	}
	mainFn := w.newFn("main", w.sig(nil, nil))
	out.Main = mainFn
	w.beginFn(mainFn)
	if mode == 3 {
		w.A[1] = ssa.NewConst(constant.MakeString("other"), w.P)
	} else {
		w.A[1] = w.alloc(w.elem, "other")
	}
	cell := w.alloc(D, "cell")
	doShare := func() {
		switch share {
		case shGoArg:
			rd := w.fnWith("reader", []types.Type{C}, func(ps []ssa.Value) { sinkCall(w.load(ps[0], D)) })
			w.goCall(rd, cell)
		case shGlobal:
			gv := types.NewVar(token.NoPos, w.tpkg, "GC", C)
			gc := &ssa.Global{Pkg: w.pkg}
			verifSetUnexported(gc, "name", "GC")
			verifSetUnexported(gc, "typ", types.Type(PPP))
			verifSetUnexported(gc, "object", gv)
			w.pkg.Members["GC"] = gc
			w.objs[gv] = gc
			rd := w.fnWith("greader", nil, func([]ssa.Value) { sinkCall(w.load(w.load(gc, C), D)) })
			w.store(gc, cell)
			w.goCall(rd)
		case shClosure:
			f := w.newFn("cloreader", w.sig(nil, nil))
			fv := &ssa.FreeVar{}
			verifSetUnexported(fv, "name", "cell")
			verifSetUnexported(fv, "typ", C)
			verifSetUnexported(fv, "parent", f)
			f.FreeVars = []*ssa.FreeVar{fv}
			sFn, sBlocks, sCur, sCurB := w.fn, w.blocks, w.cur, w.curB
			w.beginFn(f)
			sinkCall(w.load(fv, D))
			w.emit(&ssa.Return{})
			w.endFn()
			w.fn, w.blocks, w.cur, w.curB = sFn, sBlocks, sCur, sCurB
			mc := w.val(&ssa.MakeClosure{Fn: f, Bindings: []ssa.Value{cell}}, f.Signature)
			w.goCall(mc)
		case shHolder:
			hT := types.NewStruct([]*types.Var{types.NewField(token.NoPos, w.tpkg, "c", C, false)}, nil)
			pH := types.NewPointer(hT)
			rd := w.fnWith("hreader", []types.Type{pH}, func(ps []ssa.Value) {
				c := w.load(w.val(&ssa.FieldAddr{X: ps[0], Field: 0}, PPP), C)
				sinkCall(w.load(c, D))
			})
			h := w.alloc(hT, "holder")
			w.store(w.val(&ssa.FieldAddr{X: h, Field: 0}, PPP), cell)
			w.goCall(rd, h)
		case shChanOfCell:
			chT := types.NewChan(types.SendRecv, C)
			rd := w.fnWith("creader", []types.Type{chT}, func(ps []ssa.Value) {
				c := w.val(&ssa.UnOp{Op: token.ARROW, X: ps[0]}, C)
				sinkCall(w.load(c, D))
			})
			ch := w.val(&ssa.MakeChan{Size: w.intConst(1)}, chT)
			w.emit(&ssa.Send{Chan: ch, X: cell})
			w.goCall(rd, ch)
		}
	}
	if shareFirst {
		doShare()
	}
	sc := &ssa.Call{}
	sc.Call.Value = src
	x := w.val(sc, D)
	out.Source = sc
	if t >= 0 {
		x = w.transport(t, x, w.A[1], variant)
	}
	wcell := cell // the address the writer uses: the cell's address, possibly after a transport
	for i := range cellTs {
		wcell = w.transport(cellTs[i], wcell, w.A[1], cellVariants[i])
	}
	switch storeForm {
	case 0:
		w.store(wcell, x)
	case 1: // put(cell, x) with  func put(c **N, v *N) { *c = v }
		put := w.fnWith("put", []types.Type{C, D}, func(ps []ssa.Value) { w.store(ps[0], ps[1]) })
		w.plainCall(put, wcell, x)
	default: // put2(h, cell, x) / put3(cell, h, x) with h.c == cell: the cell is reachable from two arguments
		hT := types.NewStruct([]*types.Var{types.NewField(token.NoPos, w.tpkg, "c", C, false)}, nil)
		pH := types.NewPointer(hT)
		h := w.alloc(hT, "twoPaths")
		w.store(w.val(&ssa.FieldAddr{X: h, Field: 0}, PPP), wcell)
		if storeForm == 2 {
			put2 := w.fnWith("put2", []types.Type{pH, C, D}, func(ps []ssa.Value) { w.store(ps[1], ps[2]) })
			w.plainCall(put2, h, wcell, x)
		} else {
			put3 := w.fnWith("put3", []types.Type{C, pH, D}, func(ps []ssa.Value) {
				c := w.load(w.val(&ssa.FieldAddr{X: ps[1], Field: 0}, PPP), C)
				w.store(c, ps[2])
			})
			w.plainCall(put3, wcell, h, x)
		}
	}
	if !shareFirst {
		doShare()
	}
	w.emit(&ssa.Return{})
	w.endFn()
	verifSetUnexported(w.pkg, "objects", w.objs)
	verifSetUnexported(w.prog, "runtimeTypes", w.rtyps)
	return out
}

// VerifPtrProgram is the exported view of a generated transport-chain program (for harnesses of other packages).
type VerifPtrProgram struct {
	Prog     *ssa.Program
	Funcs    map[*ssa.Function]bool
	Executed map[*ssa.Function]bool // functions that run in the program's execution
}

func VerifBuildPtrProgram(ts, variants []int, k, split int) *VerifPtrProgram {
	w := verifBuildPtrChain(ts, variants, k, split)
	out := &VerifPtrProgram{Prog: w.prog, Funcs: w.funcs, Executed: map[*ssa.Function]bool{}}
	out.Executed[w.pkg.Func("main")] = true
	out.Executed[w.pkg.Func("init")] = true
	for _, c := range w.Calls {
		out.Executed[c.Callee] = true
	}
	return out
}

// ---------------------------------------------------------------------------------------------------------------
// Sequential source-to-sink flows (C01 / C03 / C05): x := source(); q := transports(x); sink(q)  - the transports run in
// main or (from position split on) inside a callee; with sinkForm 1 the sink receives a pointer to a struct whose
// field holds q (the tainted data is in memory reachable from the argument).

// setG returns  func setG(p T) { G = p }
func (w *verifPtrWorld) setG() *ssa.Function {
	return w.fnWith("setG", []types.Type{w.P}, func(ps []ssa.Value) { w.store(w.global, ps[0]) })
}

// VerifGlobalReadThroughCopy reports whether transport t reads a global through a copy of its address made by an
// instruction other than a load / call argument (ChangeType, MakeInterface, Return): the region of the recorded
// finding KF-C01-global-address-copy when the data itself is not a pointer.
func VerifGlobalReadThroughCopy(t int) bool {
	return t == ptInvokeCallback || t == ptGlobalViaIface || t == ptGlobalViaReturn
}

// VerifClosureTransport reports whether transport t moves the data through a closure (bound by value or by reference).
func VerifClosureTransport(t int) bool { return t == ptCallClosure || t == ptClosureCell }

// VerifTransportThroughCall reports whether the value produced by transport t is the result of a call (or is read
// from memory written by a callee): the traversal reaches main's later uses of it by returning from that callee.
func VerifTransportThroughCall(t int) bool {
	switch t {
	case ptCallDirect, ptCallFuncValue, ptCallInvoke, ptCallSwap, ptInvokeCallback, ptCellViaHelper, ptCallViaLibrary,
		ptGlobalViaIface, ptGlobalViaReturn:
		return true
	}
	return false
}

// VerifMapTransport / VerifDeferStoreTransport identify two transports named by harnesses.
func VerifMapTransport(t int) bool        { return t == ptMap }
func VerifDeferStoreTransport(t int) bool { return t == ptDeferStore }

// VerifByValueClosure reports whether transport t binds the data itself (not its address) in a closure.
func VerifByValueClosure(t int) bool { return t == ptCallClosure }

// VerifSequentialTransport reports whether transport t is an explicit data operation of the sequential fragment
// (no goroutine, channel or select involved).
func VerifSequentialTransport(t int) bool {
	switch t {
	case ptChan, ptSelectRecv, ptGoStore:
		return false
	}
	return true
}

func VerifBuildDirectFlow(ts, variants []int, split int, sinkForm int, stringData bool) *VerifFlowWorld {
	mode := 1
	if stringData {
		mode = 3
	}
	w := verifNewPtrWorld(mode)
	out := &VerifFlowWorld{Prog: w.prog, Funcs: w.funcs}
	src := w.newFn("source", w.sig(nil, []types.Type{w.P}))
	{
		w.beginFn(src)
		var a ssa.Value
		if stringData {
			a = ssa.NewConst(constant.MakeString("secret"), w.P)
		} else {
			a = w.alloc(w.elem, "secret")
		}
		w.emit(&ssa.Return{Results: []ssa.Value{a}})
		w.endFn()
	}
	var sink *ssa.Function
	if sinkForm == 0 || sinkForm == 2 {
		sink = w.fnWith("sink", []types.Type{w.P}, func([]ssa.Value) {})
	} else {
		sink = w.fnWith("sink", []types.Type{w.PS}, func([]ssa.Value) {})
	}
	out.SourceFn, out.SinkFn = src, sink
	mainFn := w.newFn("main", w.sig(nil, nil))
	out.Main = mainFn
	var midFn *ssa.Function
	if split < len(ts) {
		midFn = w.newFn("mid", w.sig([]types.Type{w.P, w.P}, []types.Type{w.P}))
	}
	w.beginFn(mainFn)
	if stringData {
		w.A[1] = ssa.NewConst(constant.MakeString("other"), w.P)
	} else {
		w.A[1] = w.alloc(w.elem, "other")
	}
	sc := &ssa.Call{}
	sc.Call.Value = src
	v := w.val(sc, w.P)
	out.Source = sc
	for i := 0; i < len(ts) && i < split; i++ {
		v = w.transport(ts[i], v, w.A[1], variants[i])
	}
	if midFn != nil {
		mBlocks, mCur, mCurB := w.blocks, w.cur, w.curB
		w.beginFn(midFn)
		p := w.param(midFn, "p", w.P, nil)
		q := w.param(midFn, "q", w.P, nil)
		var mv ssa.Value = p
		for i := split; i < len(ts); i++ {
			mv = w.transport(ts[i], mv, q, variants[i])
		}
		w.emit(&ssa.Return{Results: []ssa.Value{mv}})
		w.endFn()
		w.fn, w.blocks, w.cur, w.curB = mainFn, mBlocks, mCur, mCurB
		v = w.call(midFn, []ssa.Value{v, w.A[1]}, w.P, midFn)
	}
	if sinkForm == 2 {
		// control: the sink receives the other allocation, which never holds the source's data
		out.Sink = w.plainCall(sink, w.A[1])
	} else if sinkForm == 0 {
		out.Sink = w.plainCall(sink, v)
	} else {
		h := w.alloc(w.S, "holder")
		w.store(w.val(&ssa.FieldAddr{X: h, Field: 1}, w.PP), v)
		out.Sink = w.plainCall(sink, h)
	}
	w.emit(&ssa.Return{})
	w.endFn()
	verifSetUnexported(w.pkg, "objects", w.objs)
	verifSetUnexported(w.prog, "runtimeTypes", w.rtyps)
	return out
}
