package dataflow

import (
	"github.com/awslabs/ar-go-tools/analysis/config"
	"github.com/awslabs/ar-go-tools/internal/pointer"
	"golang.org/x/tools/go/ssa"
)

// C11: the real DoPointerAnalysis (query registration for every operand of the user functions, constraint
// generation, HVN / optimisation, solver) on every program of the generated transport-chain family
// (h_ptrworld.go). Run-time truth by construction: every chain value refers to allocation a_k and every recorded
// cell holds a_k's address. Hence the points-to set of every chain value must contain a_k's allocation site and
// intersect the set of a_k; the pointee set of every recorded cell must do the same.

func c11Pick(n int) (ts, variants []int) {
	for i := 0; i < n; i++ {
		ts = append(ts, verifPick("transport", 0, ptNumTransports-1))
		variants = append(variants, verifPick("variant", 0, 1))
	}
	return
}

func c11HasLabel(p pointer.Pointer, site ssa.Value) bool {
	for _, l := range p.PointsTo().Labels() {
		if l.Value() == site {
			return true
		}
	}
	return false
}

func c11Run(w *verifPtrWorld) *pointer.Result {
	verifTerminatesWithin("pointer-analysis-terminates", 50000000)
	res, err := DoPointerAnalysis(&config.Config{}, w.prog, func(*ssa.Function) bool { return true }, w.funcs)
	verifTerminated()
	verifReach("analysed")
	verifAssert("analysis-succeeds", err == nil && res != nil)
	if err != nil {
		return nil
	}
	return res
}

func c11Check(w *verifPtrWorld, res *pointer.Result, k int) {
	pa, okA := res.Queries[w.A[k]]
	verifAssert("allocation-is-registered-as-a-query", okA)
	if !okA {
		return
	}
	for _, v := range w.Chain {
		pv, ok := res.Queries[v]
		verifAssert("every-operand-of-a-user-function-is-registered-as-a-query", ok)
		if ok {
			verifAssert("run-time-alias-is-a-may-alias", pv.MayAlias(pa))
			verifAssert("run-time-allocation-site-is-in-the-points-to-set", c11HasLabel(pv, w.A[k]))
		}
	}
	for _, p := range w.Params {
		pv, ok := res.Queries[p]
		verifAssert("parameters-and-free-variables-are-registered-as-queries", ok)
		if ok {
			verifAssert("run-time-alias-of-a-callee-parameter-is-a-may-alias", pv.MayAlias(pa))
		}
	}
	for _, c := range w.Cells {
		pc, ok := res.IndirectQueries[c]
		verifAssert("pointer-to-pointer-operands-are-registered-as-indirect-queries", ok)
		if ok {
			verifAssert("run-time-pointee-of-a-cell-is-in-its-indirect-points-to-set", pc.MayAlias(pa) && c11HasLabel(pc, w.A[k]))
		}
	}
}

// one transport, every form, both allocations, in main or in a callee
func Harness_C11_single_transport() {
	ts, vs := c11Pick(1)
	k := verifPick("k", 0, 1)
	split := verifPick("split", 0, 1)
	w := verifBuildPtrChain(ts, vs, k, split)
	if res := c11Run(w); res != nil {
		c11Check(w, res, k)
	}
}

// chains of two transports; the second one optionally runs inside a callee
func Harness_C11_transport_pairs() {
	ts, _ := c11Pick(0)
	n := ptNumTransports
	t1 := verifPick("t1", 0, n-1)
	t2 := verifPick("t2", 0, n-1)
	ts = append(ts, t1, t2)
	variant := verifPick("variant", 0, 1)
	split := 2
	if verifTier() > 0 {
		split = verifPick("split", 1, 2)
	}
	w := verifBuildPtrChain(ts, []int{variant, 1 - variant}, 0, split)
	if res := c11Run(w); res != nil {
		c11Check(w, res, 0)
	}
}

// chains of three transports (thorough tier): the outer two range over 10 core transports, the middle one over all
func Harness_C11_transport_triples_T() {
	core := []int{ptCell, ptFieldG, ptSliceElem, ptMap, ptIface, ptCallFuncValue, ptCallInvoke, ptPhi, ptGlobal, ptClosureCell}
	t1 := core[verifPick("t1", 0, len(core)-1)]
	t2 := verifPick("t2", 0, ptNumTransports-1)
	t3 := core[verifPick("t3", 0, len(core)-1)]
	split := verifPick("split", 2, 3)
	w := verifBuildPtrChain([]int{t1, t2, t3}, []int{0, 1, 0}, 1, split)
	if res := c11Run(w); res != nil {
		c11Check(w, res, 1)
	}
}
