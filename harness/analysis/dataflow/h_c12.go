package dataflow

import (
	"github.com/awslabs/ar-go-tools/analysis/config"
	"golang.org/x/tools/go/ssa"
)

// C12: on every program of the generated family, every recorded call site (static call, call of a function value
// loaded from memory, closure call, interface method invocation, go and defer statements, in main or in a callee)
// transfers control to its recorded callee at run time. Hence the pointer analysis call graph must have an edge
// caller -> callee at that site, the callee must be in the analyzer's reachable-function set, and ResolveCallee must
// return it.

func c12Check(w *verifPtrWorld) {
	res := c11Run(w)
	if res == nil {
		return
	}
	verifAssert("call-graph-is-built", res.CallGraph != nil)
	if res.CallGraph == nil {
		return
	}
	s := &AnalyzerState{Config: &config.Config{}, Logger: config.NewLogGroup(config.NewDefault()), PointerAnalysis: res, Program: w.prog}
	reach := s.ReachableFunctions()
	verifAssert("main-is-reachable", reach[w.pkg.Func("main")])
	for _, c := range w.Calls {
		caller := c.Site.Parent()
		found := false
		if n := res.CallGraph.Nodes[caller]; n != nil {
			for _, e := range n.Out {
				if e.Site == c.Site && e.Callee.Func == c.Callee {
					found = true
				}
			}
		}
		verifAssert("call-graph-has-an-edge-for-every-run-time-call", found)
		verifAssert("run-time-callee-is-in-the-reachable-function-set", reach[c.Callee])
		callees, err := s.ResolveCallee(c.Site, false)
		_, in := callees[c.Callee]
		verifAssert("callee-resolution-returns-the-function-actually-called", err == nil && in)
	}
}

func Harness_C12_dispatch_forms() {
	t := verifPick("transport", 0, ptNumTransports-1)
	variant := verifPick("variant", 0, 1)
	split := verifPick("split", 0, 1)
	w := verifBuildPtrChain([]int{t}, []int{variant}, 0, split)
	verifAssume(len(w.Calls) > 0)
	c12Check(w)
}

// two dispatch forms in sequence: the function value / receiver used by the second call has itself travelled
// through the first form's callee
func Harness_C12_dispatch_pairs() {
	calls := []int{ptCallDirect, ptCallFuncValue, ptCallClosure, ptCallInvoke, ptCallSwap, ptClosureCell, ptDeferStore, ptGoStore, ptInvokeCallback, ptCallViaLibrary}
	t1 := calls[verifPick("t1", 0, len(calls)-1)]
	t2 := calls[verifPick("t2", 0, len(calls)-1)]
	variant := verifPick("variant", 0, 1)
	split := verifPick("split", 1, 2)
	w := verifBuildPtrChain([]int{t1, t2}, []int{variant, 1 - variant}, 1, split)
	c12Check(w)
}

var _ ssa.Value
