package dataflow

import (
	"go/token"
	"go/types"

	"github.com/awslabs/ar-go-tools/analysis/summaries"
	"golang.org/x/tools/go/ssa"
)

// C10: a user dataflow specification (matrix of positions) is applied exactly as written by the real loader
// PopulateGraphFromSummary / addParamEdgeByPos / addReturnEdgeByPos.

func c10Matrix(name string, rows, maxLen, lo, hi int) [][]int {
	m := make([][]int, rows)
	for i := range m {
		ml := maxLen
		if i > 0 && verifTier() == 0 {
			ml = 1 // quick tier: only the first row has several entries
		}
		n := verifIntIn(name+".rowlen", 0, ml)
		m[i] = make([]int, n)
		for k := 0; k < n; k++ {
			m[i][k] = verifIntIn(name+".entry", lo, hi)
		}
	}
	return m
}

func c10Lists(m [][]int, i, j int) bool {
	if i >= len(m) {
		return false
	}
	found := false
	for _, x := range m[i] {
		found = verifOr(found, x == j)
	}
	return found
}

func c10Check(np, nr int, args, rets [][]int, external bool) {
	var fn *ssa.Function
	var params []*ssa.Parameter
	if external {
		// a function without body: NewSummaryGraph registers the return nodes under the nil instruction
		fn = &ssa.Function{Signature: hSig(np, nr)}
		verifSetUnexported(fn, "name", "ext")
		for i := 0; i < np; i++ {
			p := hParam("p")
			verifSetUnexported(p, "parent", fn)
			params = append(params, p)
		}
		fn.Params = params
	} else {
		fn, params, _ = hFunc("f", np, nr, 2)
	}
	g := NewSummaryGraph(nil, fn, 1, nil, nil)
	isInterface := verifBool("is-interface-contract")
	g.PopulateGraphFromSummary(summaries.Summary{Args: args, Rets: rets}, isInterface)
	verifReach("populated")
	var retNodes []*ReturnValNode
	for _, r := range g.Returns {
		retNodes = r
	}
	verifAssert("return-nodes-present", len(retNodes) == nr)
	for i := 0; i < np; i++ {
		pn := g.Params[params[i]]
		for j := 0; j < nr; j++ {
			has := len(pn.out[retNodes[j]]) > 0
			verifAssert("param-to-result-edge-iff-listed", has == c10Lists(rets, i, j))
			_, in := retNodes[j].in[pn]
			verifAssert("param-to-result-edge-mirrored", in == has)
		}
		for k := 0; k < np; k++ {
			qn := g.Params[params[k]]
			has := len(pn.out[qn]) > 0
			verifAssert("param-to-param-edge-iff-listed", has == c10Lists(args, i, k))
			_, in := qn.in[pn]
			verifAssert("param-to-param-edge-mirrored", in == has)
		}
		// nothing else is added
		verifAssert("no-other-out-edges", len(pn.out) <= np+nr)
	}
	verifAssert("marked-constructed-and-presummarized", verifAnd(g.Constructed, g.IsPreSummarized))
	verifAssert("interface-contract-flag", g.IsInterfaceContract == isInterface)
	verifAssert("callees-emptied", len(g.Callees) == 0)
}

// Harness_C10_rets: the argument-to-result matrix.
func Harness_C10_rets() {
	np := verifIntIn("params", 1, 2)
	nr := verifIntIn("results", 1, 2)
	maxRows := np + 1
	if verifTier() == 0 {
		maxRows = 2
	}
	rows := verifIntIn("rows", 0, maxRows)
	rets := c10Matrix("rets", rows, 2, -1, 2)
	c10Check(np, nr, nil, rets, verifBool("external"))
}

// Harness_C10_args: the argument-to-argument matrix.
func Harness_C10_args() {
	np := verifIntIn("params", 1, 3)
	rows := verifIntIn("rows", 0, 2)
	args := c10Matrix("args", rows, 2, -1, 3)
	c10Check(np, 1, args, nil, false)
}

// Harness_C10_both_T: both matrices together (thorough): <=1 argument row and <=2 result rows of 2 entries each; the
// larger single-matrix shapes are covered by Harness_C10_args / Harness_C10_rets.
func Harness_C10_both_T() {
	np := verifIntIn("params", 1, 3)
	nr := verifIntIn("results", 0, 2)
	args := c10Matrix("args", verifIntIn("arows", 0, 1), 2, -1, 3)
	rets := c10Matrix("rets", verifIntIn("rrows", 0, 2), 2, -1, 2)
	c10Check(np, nr, args, rets, verifBool("external"))
}

// Harness_C10_precedence: an interface-method contract takes precedence over a function contract.
func Harness_C10_precedence() {
	callee, _, _ := hFunc("impl", 1, 1, 1)
	pkg := types.NewPackage("example.com/p", "p")
	iface := types.NewNamed(types.NewTypeName(token.NoPos, pkg, "I", nil), types.NewInterfaceType(nil, nil), nil)
	recv := hParam("i")
	verifSetUnexported(recv, "typ", types.Type(iface))
	call := &ssa.Call{}
	call.Call.Value = recv
	invoke := verifBool("invoke")
	if invoke {
		call.Call.Method = types.NewFunc(token.NoPos, pkg, "M", hSig(0, 1))
	} else {
		call.Call.Value = callee
	}
	caller, _, _ := hFunc("caller", 1, 1, 1)
	g := NewSummaryGraph(nil, caller, 1, nil, nil)
	cn := hNewCallNode(g, call, callee, nil)
	isIfaceContract := verifBool("callee-is-interface-contract")
	if isIfaceContract {
		cn.callee.Type = InterfaceContract
	}
	ifaceSummary := NewSummaryGraph(nil, callee, 2, nil, nil)
	funcSummary := NewSummaryGraph(nil, callee, 3, nil, nil)
	s := &AnalyzerState{DataFlowContracts: map[string]*SummaryGraph{}}
	hasIface, hasFunc := verifBool("has-interface-contract"), verifBool("has-function-contract")
	if hasIface {
		s.DataFlowContracts["example.com/p.I.M"] = ifaceSummary
	}
	if hasFunc {
		s.DataFlowContracts[callee.String()] = funcSummary
	}
	got := s.LoadExternalContractSummary(cn)
	verifReach("looked-up")
	useIface := invoke && isIfaceContract && hasIface
	if useIface {
		verifAssert("interface-contract-takes-precedence", got == ifaceSummary)
	} else if hasFunc {
		verifAssert("function-contract-otherwise", got == funcSummary)
	} else {
		verifAssert("no-contract-no-summary", got == nil)
	}
}
