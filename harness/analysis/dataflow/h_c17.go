package dataflow

import (
	"golang.org/x/tools/go/ssa"
)

// C17: out-edges and in-edges of the summary graph mirror each other.

type c17World struct {
	g       *SummaryGraph
	fn      *ssa.Function
	params  []*ssa.Parameter
	ret     *ssa.Return
	call    *ssa.Call
	callee  *ssa.Function
	cn      *CallNode
	argVals []ssa.Value
	nodes   []GraphNode
}

// hNewCallNode builds a call node with nArgs argument nodes, registered in g the way addCallNode does.
func hNewCallNode(g *SummaryGraph, call ssa.CallInstruction, callee *ssa.Function, argVals []ssa.Value) *CallNode {
	cn := &CallNode{
		id:       g.newNodeID(),
		parent:   g,
		callSite: call,
		callee:   CalleeInfo{Callee: callee, Type: Static},
		out:      make(map[GraphNode][]EdgeInfo),
		in:       make(map[GraphNode]EdgeInfo),
	}
	for pos, v := range argVals {
		cn.args = append(cn.args, &CallNodeArg{
			id:       g.newNodeID(),
			parent:   cn,
			ssaValue: v,
			argPos:   pos,
			out:      make(map[GraphNode][]EdgeInfo),
			in:       make(map[GraphNode]EdgeInfo),
		})
	}
	g.addCallNode(cn)
	return cn
}

func c17Build() *c17World {
	w := &c17World{}
	fn, params, rets := hFunc("f", 2, 2, 1)
	w.fn, w.params, w.ret = fn, params, rets[0]
	w.g = NewSummaryGraph(nil, fn, 1, nil, nil)
	w.callee, _, _ = hFunc("callee", 2, 3, 1)
	w.call = &ssa.Call{}
	w.call.Call.Value = w.callee
	a0, a1 := hParam("x"), hParam("y")
	w.argVals = []ssa.Value{a0, a1}
	w.call.Call.Args = w.argVals
	w.cn = hNewCallNode(w.g, w.call, w.callee, w.argVals)
	w.nodes = []GraphNode{w.g.Params[params[0]], w.g.Params[params[1]], w.cn, w.cn.args[0], w.cn.args[1],
		w.g.Returns[w.ret][0], w.g.Returns[w.ret][1]}
	return w
}

var c17Paths = []string{"", ".f"}

// c17Dest picks the destination node: any node, or (quick tier, first insertion) one node of each kind.
func c17Dest(w *c17World, full bool) GraphNode {
	if full {
		return w.nodes[verifIntIn("dest", 0, len(w.nodes)-1)]
	}
	return w.nodes[[]int{1, 3, 5}[verifIntIn("dest", 0, 2)]]
}

// c17Insert performs one symbolic insertion through the real API. byPos selects the by-position loader operations
// (pre-summarised graphs) instead of the mark-driven addEdge (analysed graphs); the two never mix in one graph.
func c17Insert(w *c17World, byPos bool, full bool) {
	op := 0
	if byPos {
		op = verifIntIn("op", 3, 4)
	} else {
		op = verifIntIn("op", 0, 2)
	}
	ap := ""
	if full {
		ap = c17Paths[verifIntIn("access-path", 0, 1)]
	}
	switch op {
	case 0: // parameter mark
		p := w.params[verifIntIn("param", 0, 1)]
		m := NewMark(p, Parameter, nil, NonIndexMark, "")
		dest := c17Dest(w, full)
		w.g.addEdge(MarkWithAccessPath{Mark: &m, AccessPath: ap}, dest, nil)
	case 1: // call-site argument mark
		q := w.argVals[verifIntIn("arg", 0, 1)]
		m := NewMark(w.call, CallSiteArg, q, NonIndexMark, "")
		dest := c17Dest(w, full)
		w.g.addEdge(MarkWithAccessPath{Mark: &m, AccessPath: ap}, dest, nil)
	case 2: // call-return mark with a tuple index
		t := verifIntIn("tuple-index", -1, 2)
		idx := NonIndexMark
		if t >= 0 {
			idx = NewIndex(t)
		}
		m := NewMark(w.call, CallReturn, nil, idx, "")
		dest := c17Dest(w, full)
		w.g.addEdge(MarkWithAccessPath{Mark: &m, AccessPath: ap}, dest, nil)
	case 3:
		w.g.addParamEdgeByPos(verifIntIn("src", -1, 2), verifIntIn("dst", -1, 2))
	case 4:
		w.g.addReturnEdgeByPos(verifIntIn("src", -1, 2), verifIntIn("dst", -1, 2))
	}
}

func c17CheckInvariant(w *c17World, byPos bool) {
	for _, s := range w.nodes {
		for _, d := range w.nodes {
			outs := s.Out()[d]
			in, hasIn := d.In()[s]
			verifAssert("out-edge-iff-in-edge", (len(outs) > 0) == hasIn)
			if len(outs) > 0 && hasIn {
				// region of the known finding: several out-edges with different tuple indices between the same nodes
				multi := false
				for _, e := range outs {
					multi = verifOr(multi, e.Index != outs[0].Index)
				}
				all := true
				some := false
				for _, e := range outs {
					all = verifAnd(all, e.Index == in.Index)
					some = verifOr(some, e.Index == in.Index)
				}
				verifAssertKnown("in-edge-has-the-tuple-index-of-every-out-edge", "KF-C17-inedge-single-index", multi, all)
				verifAssert("in-edge-index-is-an-out-edge-index-or-unused", verifOr(some, verifAnd(multi, in.Index < 0)))
				// with one EdgeInfo per source, the only in-edge that mirrors several indices is the wildcard (< 0):
				// a specific index would hide the other out-edges from the backward traversal (analysed graphs only;
				// by-position edges of pre-summarised graphs are not traversed by index)
				if !byPos {
					verifAssert("in-edge-is-wildcard-when-out-edge-indices-differ", verifImplies(multi, in.Index < 0))
				}
			}
		}
	}
}

func c17Run(steps int) {
	w := c17Build()
	byPos := verifBool("pre-summarised-graph")
	for i := 0; i < steps; i++ {
		c17Insert(w, byPos, i == steps-1 || verifTier() > 0)
		c17CheckInvariant(w, byPos)
	}
	verifReach("inserted")
}

// Harness_C17_edges_2: two symbolic insertions.
func Harness_C17_edges_2() { c17Run(2) }

// Harness_C17_edges_3_T: three symbolic insertions (thorough).
func Harness_C17_edges_3_T() { c17Run(3) }

// Harness_C17_globals: SyncGlobals registers exactly the written / read access nodes with their global.
func Harness_C17_globals() {
	fn, _, _ := hFunc("f", 1, 1, 1)
	g := NewSummaryGraph(nil, fn, 1, nil, nil)
	glob := &ssa.Global{}
	gn := newGlobalNode(glob)
	n := verifIntIn("access-nodes", 1, 3)
	var nodes []*AccessGlobalNode
	var isWrite, hasOut []bool
	for i := 0; i < n; i++ {
		instr := &ssa.Jump{}
		g.AddAccessGlobalNode(instr, gn)
		node := g.AccessGlobalNodes[instr][glob]
		wr := verifBool("is-write")
		ho := verifBool("has-out-edge")
		node.IsWrite = wr
		if ho {
			m := NewMark(instr, Global, glob, NonIndexMark, "")
			g.addEdge(MarkWithAccessPath{Mark: &m}, g.Returns[fn.Blocks[0].Instrs[0]][0], nil)
		}
		nodes = append(nodes, node)
		isWrite = append(isWrite, wr)
		hasOut = append(hasOut, ho)
	}
	g.SyncGlobals()
	verifReach("synced")
	for i, node := range nodes {
		verifAssert("write-location-iff-write-node", gn.WriteLocations[node] == isWrite[i])
		verifAssert("read-location-iff-read-node-with-out-edge", gn.ReadLocations[node] == (!isWrite[i] && hasOut[i]))
	}
	verifAssert("no-other-write-location", len(gn.WriteLocations) <= n)
}
