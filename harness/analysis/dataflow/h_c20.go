package dataflow

import (
	"fmt"
	"go/types"
	"sync"

	"github.com/awslabs/ar-go-tools/analysis/config"
	"golang.org/x/tools/go/ssa"
)

// C20 kernel: the pieces of shared analyzer state that the parallel summary workers touch (read/write locations of
// a global, the error table, the alarm counter) are accessed only under their locks / atomically: two workers
// performing arbitrary operations on them never race (happens-before race detection over every schedule).

func c20Worker(ops []int, gn *GlobalNode, s *AnalyzerState, nodes []GraphNode, wg *sync.WaitGroup) {
	defer wg.Done()
	for _, op := range ops {
		switch op {
		case 0:
			gn.addReadLoc(nodes[0])
		case 1:
			gn.addWriteLoc(nodes[1])
		case 2:
			_ = gn.String()
		case 3:
			s.AddError("k", fmt.Errorf("e"))
		case 4:
			_ = s.HasErrors()
		case 5:
			_ = s.IncrementAndTestAlarms()
		case 6:
			_ = s.CheckError()
		}
	}
}

func Harness_C20_shared_state_race_free() {
	verifRaceDetect(true)
	glob := &ssa.Global{Pkg: &ssa.Package{Pkg: types.NewPackage("example.com/p", "p")}}
	verifSetUnexported(glob, "name", "g")
	gn := newGlobalNode(glob)
	s := &AnalyzerState{Config: &config.Config{}, Logger: &config.LogGroup{}, errors: map[string][]error{}}
	fn, _, _ := hFunc("f", 1, 1, 1)
	g := NewSummaryGraph(nil, fn, 1, nil, nil)
	i1, i2 := &ssa.Jump{}, &ssa.Jump{}
	g.AddAccessGlobalNode(i1, gn)
	g.AddAccessGlobalNode(i2, gn)
	nodes := []GraphNode{g.AccessGlobalNodes[i1][glob], g.AccessGlobalNodes[i2][glob]}
	nOps := 1
	if verifTier() > 0 {
		nOps = 2
	}
	var ops [2][]int
	for w := 0; w < 2; w++ {
		for k := 0; k < nOps; k++ {
			ops[w] = append(ops[w], verifPick("op", 0, 6))
		}
	}
	wg := &sync.WaitGroup{}
	wg.Add(2)
	go c20Worker(ops[0], gn, s, nodes, wg)
	go c20Worker(ops[1], gn, s, nodes, wg)
	wg.Wait()
	verifReach("workers-done")
	// after the workers are joined the main goroutine may read everything
	verifAssert("locations-recorded", len(gn.ReadLocations)+len(gn.WriteLocations) <= 2)
}
