package dataflow

import (
	"go/token"
	"go/types"

	"github.com/awslabs/ar-go-tools/analysis/config"
	"github.com/awslabs/ar-go-tools/internal/pointer"
	"golang.org/x/tools/go/ssa"
)

// Helpers shared by the dataflow harnesses: hand-built, untyped SSA skeletons. The kernels under test read these
// objects only as identity tokens and exported-field records.

func hSig(nParams, nResults int) *types.Signature {
	var ps, rs []*types.Var
	for i := 0; i < nParams; i++ {
		ps = append(ps, types.NewVar(token.NoPos, nil, "p", nil))
	}
	for i := 0; i < nResults; i++ {
		rs = append(rs, types.NewVar(token.NoPos, nil, "", nil))
	}
	return types.NewSignatureType(nil, nil, nil, types.NewTuple(ps...), types.NewTuple(rs...), false)
}

func hParam(name string) *ssa.Parameter {
	p := &ssa.Parameter{}
	verifSetUnexported(p, "name", name)
	return p
}

// hFunc builds a function with nParams parameters, nResults results and nReturns blocks that each end in a Return.
func hFunc(name string, nParams, nResults, nReturns int) (*ssa.Function, []*ssa.Parameter, []*ssa.Return) {
	fn := &ssa.Function{Signature: hSig(nParams, nResults)}
	verifSetUnexported(fn, "name", name)
	params := make([]*ssa.Parameter, nParams)
	for i := range params {
		params[i] = hParam("p")
		verifSetUnexported(params[i], "parent", fn)
	}
	fn.Params = params
	rets := make([]*ssa.Return, nReturns)
	for j := 0; j < nReturns; j++ {
		ret := &ssa.Return{Results: make([]ssa.Value, nResults)}
		blk := &ssa.BasicBlock{Index: j, Instrs: []ssa.Instruction{ret}}
		verifSetUnexported(blk, "parent", fn)
		verifSetUnexported(ret, "block", blk)
		fn.Blocks = append(fn.Blocks, blk)
		rets[j] = ret
	}
	return fn, params, rets
}

func hHasOutEdge(src, dst GraphNode, index int) bool {
	for _, e := range src.Out()[dst] {
		if e.Index == index {
			return true
		}
	}
	return false
}

func hHasInEdge(src, dst GraphNode) bool {
	_, ok := dst.In()[src]
	return ok
}

// hState builds an IntraAnalysisState for fn the way RunIntraProcedural does (without running the analysis).
func hState(fn *ssa.Function, pathSensitive bool) (*IntraAnalysisState, *SummaryGraph) {
	cfg := &config.Config{}
	cfg.PathSensitive = pathSensitive
	a := &AnalyzerState{
		Config:          cfg,
		Logger:          &config.LogGroup{},
		PointerAnalysis: &pointer.Result{Queries: map[ssa.Value]pointer.Pointer{}, IndirectQueries: map[ssa.Value]pointer.Pointer{}},
		Globals:         map[*ssa.Global]*GlobalNode{},
	}
	sm := NewSummaryGraph(nil, fn, 1, nil, nil)
	flowInfo := NewFlowInfo(cfg, fn)
	state := &IntraAnalysisState{
		flowInfo:            flowInfo,
		parentAnalyzerState: a,
		changeFlag:          false,
		blocksSeen:          make([]bool, flowInfo.NumBlocks),
		errors:              map[ssa.Node]error{},
		summary:             sm,
		paths:               make([]*ConditionInfo, flowInfo.NumBlocks*flowInfo.NumBlocks),
		instrPrev:           make([]map[IndexT]bool, flowInfo.NumInstructions),
		paramAliases:        make([]map[*ssa.Parameter]bool, flowInfo.NumValues),
		freeVarAliases:      make([]map[*ssa.FreeVar]bool, flowInfo.NumValues),
		shouldTrack:         func(*AnalyzerState, ssa.Node) bool { return false },
	}
	for _, id := range flowInfo.ValueID {
		state.paramAliases[id] = map[*ssa.Parameter]bool{}
		state.freeVarAliases[id] = map[*ssa.FreeVar]bool{}
	}
	return state, sm
}

// hSetBlock registers instrs as the instructions of block blk of fn (sets the unexported back pointers).
func hSetBlock(fn *ssa.Function, blk *ssa.BasicBlock, instrs []ssa.Instruction) {
	blk.Instrs = instrs
	verifSetUnexported(blk, "parent", fn)
	for _, i := range instrs {
		verifSetUnexported(i, "block", blk)
	}
}
