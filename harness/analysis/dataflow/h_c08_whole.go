package dataflow

import (
	"go/token"
	"go/types"

	"golang.org/x/tools/go/ssa"
)

// C08 K08f: the real NewSummaryGraph + RunIntraProcedural on small value-typed functions whose instruction kinds
// and operand wiring are symbolic; oracle = reachability over SSA data operands.

const (
	kBinOp = iota
	kUnOp
	kConvert
	kChangeType
	kMakeInterface
	kChangeInterface
	kTypeAssert
	kSlice
	kIndex
	kLookup
	kExtractLookup  // t = lookup x[y],ok ; extract t #0
	kExtractAssert  // t = typeassert x,ok ; extract t #0
	kNumKinds
)

// c08MakeInstr builds one value-computing instruction of the given kind over operands x (and y when binary).
// It returns the instruction and the list of its data-carrying operands.
func c08MakeInstr(kind int, x, y ssa.Value) (ssa.Instruction, []ssa.Value) {
	switch kind {
	case kBinOp:
		i := &ssa.BinOp{Op: token.ADD, X: x, Y: y}
		return i, []ssa.Value{x, y}
	case kUnOp:
		i := &ssa.UnOp{Op: token.SUB, X: x}
		return i, []ssa.Value{x}
	case kConvert:
		i := &ssa.Convert{X: x}
		return i, []ssa.Value{x}
	case kChangeType:
		i := &ssa.ChangeType{X: x}
		return i, []ssa.Value{x}
	case kMakeInterface:
		i := &ssa.MakeInterface{X: x}
		return i, []ssa.Value{x}
	case kChangeInterface:
		i := &ssa.ChangeInterface{X: x}
		return i, []ssa.Value{x}
	case kTypeAssert:
		i := &ssa.TypeAssert{X: x}
		return i, []ssa.Value{x}
	case kSlice:
		i := &ssa.Slice{X: x, Low: y}
		return i, []ssa.Value{x}
	case kIndex:
		i := &ssa.Index{X: x, Index: y}
		return i, []ssa.Value{x, y}
	case kLookup:
		i := &ssa.Lookup{X: x, Index: y}
		return i, []ssa.Value{x, y}
	case kExtractLookup:
		i := &ssa.Lookup{X: x, Index: y, CommaOk: true}
		return i, []ssa.Value{x, y}
	default:
		i := &ssa.TypeAssert{X: x, CommaOk: true}
		return i, []ssa.Value{x}
	}
}

func c08Straight(nInstr, nRes int, pathSensitive bool) {
	fn := &ssa.Function{Signature: hSig(2, nRes), Prog: &ssa.Program{Fset: token.NewFileSet()}}
	verifSetUnexported(fn, "name", "f")
	p0, p1 := hParam("a"), hParam("b")
	verifSetUnexported(p0, "parent", fn)
	verifSetUnexported(p1, "parent", fn)
	intT := types.Type(types.Typ[types.Int])
	// the first parameter is an int, a string or an array (the types an Index / Lookup / Slice operand can have
	// without being pointer-like); everything computed from the parameters is typed int
	p0T := []types.Type{intT, types.Typ[types.String], types.NewArray(intT, 4)}[verifPick("param0-type", 0, 2)]
	verifSetUnexported(p0, "typ", p0T)
	verifSetUnexported(p1, "typ", intT)
	fn.Params = []*ssa.Parameter{p0, p1}
	values := []ssa.Value{p0, p1}
	// derives[v][p]: value v derives from parameter p through data-carrying operands
	derives := [][2]bool{{true, false}, {false, true}}
	var instrs []ssa.Instruction
	for n := 0; n < nInstr; n++ {
		kind := verifPick("kind", 0, kNumKinds-1)
		xi := verifPick("x", 0, len(values)-1)
		yi := verifPick("y", 0, len(values)-1)
		ins, data := c08MakeInstr(kind, values[xi], values[yi])
		var d [2]bool
		for _, op := range data {
			for vi, v := range values {
				if v == op {
					d[0] = d[0] || derives[vi][0]
					d[1] = d[1] || derives[vi][1]
				}
			}
		}
		verifSetUnexported(ins, "typ", intT)
		instrs = append(instrs, ins)
		if kind == kExtractLookup || kind == kExtractAssert {
			// the value used downstream is component #0 of the tuple
			ex := &ssa.Extract{Tuple: ins.(ssa.Value), Index: 0}
			verifSetUnexported(ins, "typ", types.Type(types.NewTuple(types.NewVar(token.NoPos, nil, "", intT), types.NewVar(token.NoPos, nil, "", types.Typ[types.Bool]))))
			verifSetUnexported(ex, "typ", intT)
			instrs = append(instrs, ex)
			values = append(values, ex)
		} else {
			values = append(values, ins.(ssa.Value))
		}
		derives = append(derives, d)
	}
	ret := &ssa.Return{}
	var retIdx []int
	for k := 0; k < nRes; k++ {
		ri := verifPick("ret", 0, len(values)-1)
		ret.Results = append(ret.Results, values[ri])
		retIdx = append(retIdx, ri)
	}
	instrs = append(instrs, ret)
	blk := &ssa.BasicBlock{Index: 0}
	hSetBlock(fn, blk, instrs)
	fn.Blocks = []*ssa.BasicBlock{blk}

	state, _ := hState(fn, pathSensitive)
	a := state.parentAnalyzerState
	sm := NewSummaryGraph(nil, fn, 1, func(*AnalyzerState, ssa.Node) bool { return false }, nil)
	verifTerminatesWithin("intra-procedural-terminates", 3000000)
	_, err := RunIntraProcedural(a, sm)
	verifTerminated()
	verifReach("summarised")
	verifAssert("no-analysis-error", err == nil)
	verifAssert("summary-constructed", sm.Constructed)
	params := []*ssa.Parameter{p0, p1}
	for k := 0; k < nRes; k++ {
		rn := sm.Returns[ret][k]
		for pi, p := range params {
			pn := sm.Params[p]
			has := len(pn.Out()[rn]) > 0
			if derives[retIdx[k]][pi] {
				verifAssert("def-use-chain-param-to-result-has-edge", has)
				verifAssert("edge-mirrored-at-return-node", hHasInEdge(pn, rn))
			}
		}
	}
}

// Harness_C08_whole_1: one instruction, one to three results.
func Harness_C08_whole_1() { c08Straight(1, verifPick("results", 1, 3), false) }

// Harness_C08_whole_2_T: two chained instructions, one result (thorough; result arities are covered by whole_1).
func Harness_C08_whole_2_T() { c08Straight(2, 1, verifBool("path-sensitive")) }
