package dataflow

import "github.com/awslabs/ar-go-tools/analysis/config"

// C05 (max-alarms clause): the real TestAlarmCount / IncrementAndTestAlarms driven by the three-site alarm protocol
// (taint.go problem loop gate, inter_procedural.go entry loop gate, dataflow_visitor.go increment-then-test per sink hit).

func c05Run(maxAlarms int, nProblems, nEntries, nHits int, dupBits []bool) (kept int, unlimited int) {
	st := &AnalyzerState{Config: &config.Config{}}
	st.Config.MaxAlarms = maxAlarms
	bit := 0
	stopped := false // the limited run stopped; the unlimited run continues to count
	for p := 0; p < nProblems; p++ {
		// taint.go: stop early if we have reached the maximum number of alarms
		if !stopped && !st.TestAlarmCount() {
			stopped = true
		}
		firstInProblem := true
		for e := 0; e < nEntries; e++ {
			// inter_procedural.go: some entrypoints are skipped, max number of alarms reached
			entrySkipped := stopped
			if !entrySkipped && !st.TestAlarmCount() {
				entrySkipped = true
				// RunVisitorOnEntryPoints returns: remaining entries of this problem are skipped
			}
			visitStopped := entrySkipped
			for h := 0; h < nHits; h++ {
				isNew := firstInProblem
				if !firstInProblem {
					isNew = !dupBits[bit%len(dupBits)]
					bit++
				}
				firstInProblem = false
				if isNew {
					unlimited++
				}
				if !visitStopped {
					if isNew {
						kept++
					}
					if !st.IncrementAndTestAlarms() {
						visitStopped = true
					}
				}
			}
			if entrySkipped && !stopped {
				// the entry loop returned: skip the remaining entries of this problem
				for e2 := e + 1; e2 < nEntries; e2++ {
					for h := 0; h < nHits; h++ {
						isNew := !dupBits[bit%len(dupBits)]
						bit++
						if isNew {
							unlimited++
						}
					}
				}
				break
			}
		}
	}
	return kept, unlimited
}

func Harness_C05_max_alarms() {
	k := verifInt("max-alarms")
	maxP, maxE, maxH := 2, 2, 2
	if verifTier() > 0 {
		maxP, maxE, maxH = 3, 3, 3
	}
	nP := verifIntIn("problems", 1, maxP)
	nE := verifIntIn("entries", 1, maxE)
	nH := verifIntIn("hits", 1, maxH)
	dup := []bool{verifBool("dup0"), verifBool("dup1"), verifBool("dup2")}
	kept, unlimited := c05Run(k, nP, nE, nH, dup)
	verifReach("ran")
	verifAssert("limit-respected", verifImplies(k > 0, kept <= k))
	verifAssert("nonempty-when-unlimited-nonempty", verifImplies(verifAnd(k > 0, unlimited > 0), kept > 0))
	verifAssert("no-limit-keeps-everything", verifImplies(k <= 0, kept == unlimited))
	verifAssert("subset-of-unlimited", kept <= unlimited)
}

// Harness_C05_test_alarm_count: TestAlarmCount is exactly "no limit, or fewer alarms than the limit" for every int limit.
func Harness_C05_test_alarm_count() {
	st := &AnalyzerState{Config: &config.Config{}}
	k := verifInt("max-alarms")
	n := verifIntIn("alarms-so-far", 0, 3)
	st.Config.MaxAlarms = k
	last := true
	for i := 0; i < n; i++ {
		last = st.IncrementAndTestAlarms()
	}
	verifReach("counted")
	verifAssert("test-alarm-count-spec", st.TestAlarmCount() == verifOr(k <= 0, n < k))
	if n > 0 {
		verifAssert("increment-returns-test", last == verifOr(k <= 0, n < k))
	}
}
