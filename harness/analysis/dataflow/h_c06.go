package dataflow

import (
	"github.com/awslabs/ar-go-tools/analysis/summaries"
)

// C06 kernels: the summary graph does not depend on the order in which marks are turned into edges (the order comes
// from map iteration in AllMarks / getMarks) nor on the iteration order of the Returns map.

func c06OutIndexSet(w *VerifEdgeWorld) [4]bool {
	var s [4]bool // index -1,0,1,2
	for _, e := range w.Src.Out()[w.Dst] {
		if e.Index >= -1 && e.Index <= 2 {
			s[e.Index+1] = true
		}
	}
	return s
}

func c06HasPath(w *VerifEdgeWorld, index int, path string) bool {
	for _, e := range w.Src.Out()[w.Dst] {
		if e.Index == index {
			for _, paths := range e.RelPath {
				if paths[path] {
					return true
				}
			}
		}
	}
	return false
}

// Harness_C06_edge_order: the same set of (tuple index, access path) flows inserted in two different orders yields
// the same out-edges and the same in-edge index.
func Harness_C06_edge_order() {
	n := 2
	if verifTier() > 0 {
		n = 3
	}
	w1 := VerifNewEdgeWorld(3)
	w2 := VerifNewEdgeWorld(3)
	idx := make([]int, n)
	ap := make([]string, n)
	for i := 0; i < n; i++ {
		idx[i] = verifIntIn("tuple-index", -1, 2)
		ap[i] = c17Paths[verifPick("access-path", 0, 1)]
	}
	for i := 0; i < n; i++ {
		w1.VerifAddCallReturnEdge(idx[i], ap[i])
	}
	for i := n - 1; i >= 0; i-- {
		w2.VerifAddCallReturnEdge(idx[i], ap[i])
	}
	verifReach("both-orders")
	verifAssert("out-edge-indices-independent-of-insertion-order", c06OutIndexSet(w1) == c06OutIndexSet(w2))
	in1, ok1 := w1.Dst.In()[w1.Src]
	in2, ok2 := w2.Dst.In()[w2.Src]
	verifAssert("in-edge-present-in-both-orders", verifAnd(ok1, ok2))
	verifAssert("in-edge-index-independent-of-insertion-order", in1.Index == in2.Index)
	for i := 0; i < n; i++ {
		verifAssert("access-paths-independent-of-insertion-order", c06HasPath(w1, idx[i], ap[i]) == c06HasPath(w2, idx[i], ap[i]))
		verifAssert("every-inserted-flow-is-recorded", c06HasPath(w1, idx[i], ap[i]))
	}
}

// Harness_C06_returns_map_order: loading a summary into a function with several return instructions gives the same
// edges for every iteration order of the Returns map.
func Harness_C06_returns_map_order() {
	nRet := verifPick("returns", 1, 3)
	build := func() (*SummaryGraph, []*ParamNode, []*ReturnValNode) {
		fn, params, rets := hFunc("f", 2, 2, nRet)
		g := NewSummaryGraph(nil, fn, 1, nil, nil)
		var pn []*ParamNode
		for _, p := range params {
			pn = append(pn, g.Params[p])
		}
		return g, pn, g.Returns[rets[0]]
	}
	src := verifPick("src", 0, 1)
	pos := verifPick("pos", 0, 1)
	verifMapOrder(true)
	g1, p1, r1 := build()
	g1.PopulateGraphFromSummary(summaries.Summary{Rets: [][]int{{pos}, {1 - pos}}[:src+1]}, false)
	g2, p2, r2 := build()
	g2.PopulateGraphFromSummary(summaries.Summary{Rets: [][]int{{pos}, {1 - pos}}[:src+1]}, false)
	verifMapOrder(false)
	verifReach("loaded-twice")
	for i := 0; i < 2; i++ {
		for j := 0; j < 2; j++ {
			verifAssert("summary-edges-independent-of-map-order", len(p1[i].out[r1[j]]) == len(p2[i].out[r2[j]]))
		}
	}
}
