package dataflow

import (
	"go/token"
	"go/types"

	"github.com/awslabs/ar-go-tools/analysis/config"
	"github.com/awslabs/ar-go-tools/internal/pointer"
	"golang.org/x/tools/go/ssa"
)

// C08 K08f on multi-block functions: a diamond with a phi at the join, and a single-block loop with a loop-carried
// phi. Shapes are fixed, instruction kinds and operand wiring are symbolic.

type c08Fn struct {
	fn     *ssa.Function
	params []*ssa.Parameter
	intT   types.Type
}

func c08NewFn(nRes int) *c08Fn {
	f := &c08Fn{intT: types.Type(types.Typ[types.Int])}
	f.fn = &ssa.Function{Signature: hSig(2, nRes), Prog: &ssa.Program{Fset: token.NewFileSet()}}
	verifSetUnexported(f.fn, "name", "f")
	for _, n := range []string{"a", "b"} {
		p := hParam(n)
		verifSetUnexported(p, "parent", f.fn)
		verifSetUnexported(p, "typ", f.intT)
		f.params = append(f.params, p)
	}
	f.fn.Params = f.params
	return f
}

func (f *c08Fn) typed(i ssa.Instruction) ssa.Instruction {
	verifSetUnexported(i, "typ", f.intT)
	return i
}

func (f *c08Fn) block(idx int, instrs []ssa.Instruction) *ssa.BasicBlock {
	b := &ssa.BasicBlock{Index: idx}
	hSetBlock(f.fn, b, instrs)
	return b
}

func c08Link(from *ssa.BasicBlock, to ...*ssa.BasicBlock) {
	from.Succs = to
	for _, t := range to {
		t.Preds = append(t.Preds, from)
	}
}

func (f *c08Fn) summarise(pathSensitive bool) *SummaryGraph {
	state, _ := hState(f.fn, pathSensitive)
	sm := NewSummaryGraph(nil, f.fn, 1, func(*AnalyzerState, ssa.Node) bool { return false }, nil)
	verifTerminatesWithin("intra-procedural-terminates", 4000000)
	_, err := RunIntraProcedural(state.parentAnalyzerState, sm)
	verifTerminated()
	verifAssert("no-analysis-error", err == nil)
	return sm
}

func (f *c08Fn) expectEdge(sm *SummaryGraph, ret *ssa.Return, k int, pi int, derives bool) {
	rn := sm.Returns[ret][k]
	pn := sm.Params[f.params[pi]]
	if derives {
		verifAssert("def-use-chain-param-to-result-has-edge", len(pn.Out()[rn]) > 0)
		verifAssert("edge-mirrored-at-return-node", hHasInEdge(pn, rn))
	}
}

// Harness_C08_diamond: b0 -> (b1 | b2) -> b3 with v = phi(x1, x2) returned.
func Harness_C08_diamond() {
	f := c08NewFn(1)
	pick := func(name string) (ssa.Value, int) {
		k := verifPick(name, 0, 1)
		return f.params[k], k
	}
	cv, _ := pick("cond-operand")
	x1, k1 := pick("then-operand")
	x2, k2 := pick("else-operand")
	kind1 := verifPick("then-kind", 0, 3)
	kind2 := verifPick("else-kind", 0, 3)
	i1, _ := c08MakeInstr(kind1, x1, x1)
	i2, _ := c08MakeInstr(kind2, x2, x2)
	f.typed(i1)
	f.typed(i2)
	cond := f.typed(&ssa.UnOp{Op: token.NOT, X: cv})
	phi := &ssa.Phi{Edges: []ssa.Value{i1.(ssa.Value), i2.(ssa.Value)}}
	f.typed(phi)
	ret := &ssa.Return{Results: []ssa.Value{phi}}
	b0 := f.block(0, []ssa.Instruction{cond, &ssa.If{Cond: cond.(ssa.Value)}})
	b1 := f.block(1, []ssa.Instruction{i1, &ssa.Jump{}})
	b2 := f.block(2, []ssa.Instruction{i2, &ssa.Jump{}})
	b3 := f.block(3, []ssa.Instruction{phi, ret})
	c08Link(b0, b1, b2)
	c08Link(b1, b3)
	c08Link(b2, b3)
	f.fn.Blocks = []*ssa.BasicBlock{b0, b1, b2, b3}
	sm := f.summarise(verifBool("path-sensitive"))
	verifReach("diamond-summarised")
	for pi := 0; pi < 2; pi++ {
		f.expectEdge(sm, ret, 0, pi, k1 == pi || k2 == pi)
	}
}

// Harness_C08_loop: b0 -> b1 (self loop) -> b2; v = phi(x0 from b0, t from b1); t = op(y); return v:
// the flow from y to the result is carried around the single-block loop.
func Harness_C08_loop() {
	f := c08NewFn(2)
	k0 := verifPick("entry-operand", 0, 1)
	ky := verifPick("loop-operand", 0, 1)
	kind := verifPick("loop-kind", 0, 3)
	phi := &ssa.Phi{}
	f.typed(phi)
	t, _ := c08MakeInstr(kind, f.params[ky], f.params[ky])
	f.typed(t)
	phi.Edges = []ssa.Value{f.params[k0], t.(ssa.Value)}
	cond := f.typed(&ssa.UnOp{Op: token.NOT, X: phi})
	ret := &ssa.Return{Results: []ssa.Value{phi, t.(ssa.Value)}}
	b0 := f.block(0, []ssa.Instruction{&ssa.Jump{}})
	b1 := f.block(1, []ssa.Instruction{phi, t, cond, &ssa.If{Cond: cond.(ssa.Value)}})
	b2 := f.block(2, []ssa.Instruction{ret})
	c08Link(b0, b1)
	c08Link(b1, b1, b2)
	f.fn.Blocks = []*ssa.BasicBlock{b0, b1, b2}
	sm := f.summarise(false)
	verifReach("loop-summarised")
	for pi := 0; pi < 2; pi++ {
		f.expectEdge(sm, ret, 0, pi, k0 == pi || ky == pi)
		f.expectEdge(sm, ret, 1, pi, ky == pi)
	}
}

// Harness_C08_call: a function that passes (values derived from) its parameters to a static call and returns
// (components of) the call's result: parameter -> call-argument edges, call -> return edges with the tuple index,
// and parameter -> return edges for the values that bypass the call.
func Harness_C08_call() {
	nCalleeRes := verifPick("callee-results", 1, 2)
	nRes := 2
	f := c08NewFn(nRes)
	// optional value computed before the call
	pre, _ := c08MakeInstr(verifPick("pre-kind", 0, 3), f.params[verifPick("pre-operand", 0, 1)], f.params[0])
	f.typed(pre)
	preFrom := -1
	for pi, p := range f.params {
		var ops []*ssa.Value
		for _, o := range pre.Operands(ops) {
			if *o == ssa.Value(p) {
				preFrom = pi
			}
		}
	}
	callee, _, _ := hFunc("callee", 2, nCalleeRes, 1)
	call := &ssa.Call{}
	call.Call.Value = callee
	vals := []ssa.Value{f.params[0], f.params[1], pre.(ssa.Value)}
	from := []int{0, 1, preFrom}
	argIdx := []int{verifPick("arg0", 0, 2), verifPick("arg1", 0, 2)}
	call.Call.Args = []ssa.Value{vals[argIdx[0]], vals[argIdx[1]]}
	instrs := []ssa.Instruction{pre, call}
	var callVals []ssa.Value // values carrying (a component of) the call result, with their tuple index
	var callIdx []int
	if nCalleeRes == 1 {
		f.typed(call)
		callVals, callIdx = []ssa.Value{call}, []int{0}
	} else {
		verifSetUnexported(call, "typ", types.Type(types.NewTuple(types.NewVar(token.NoPos, nil, "", f.intT), types.NewVar(token.NoPos, nil, "", f.intT))))
		for t := 0; t < 2; t++ {
			e := &ssa.Extract{Tuple: call, Index: t}
			f.typed(e)
			instrs = append(instrs, e)
			callVals = append(callVals, e)
			callIdx = append(callIdx, t)
		}
	}
	// returned values: a parameter, the pre-value, or a component of the call result
	retChoices := append(append([]ssa.Value{}, vals...), callVals...)
	ret := &ssa.Return{}
	var retPick []int
	for k := 0; k < nRes; k++ {
		r := verifPick("ret", 0, len(retChoices)-1)
		retPick = append(retPick, r)
		ret.Results = append(ret.Results, retChoices[r])
	}
	instrs = append(instrs, ret)
	b0 := f.block(0, instrs)
	f.fn.Blocks = []*ssa.BasicBlock{b0}

	cfg := &config.Config{}
	a := &AnalyzerState{
		Config:          cfg,
		Logger:          &config.LogGroup{},
		PointerAnalysis: &pointer.Result{Queries: map[ssa.Value]pointer.Pointer{}, IndirectQueries: map[ssa.Value]pointer.Pointer{}},
		Globals:         map[*ssa.Global]*GlobalNode{},
		FlowGraph:       &InterProceduralFlowGraph{Summaries: map[*ssa.Function]*SummaryGraph{}},
	}
	sm := NewSummaryGraph(a, f.fn, 1, func(*AnalyzerState, ssa.Node) bool { return false }, nil)
	verifTerminatesWithin("intra-procedural-terminates", 4000000)
	_, err := RunIntraProcedural(a, sm)
	verifTerminated()
	verifReach("call-summarised")
	verifAssert("no-analysis-error", err == nil)
	cn := sm.Callees[call][callee]
	verifAssert("call-node-created", cn != nil)
	if cn == nil {
		return
	}
	// parameter -> call argument
	for j := 0; j < 2; j++ {
		src := from[argIdx[j]]
		if src >= 0 {
			pn := sm.Params[f.params[src]]
			argNode := cn.FindArg(call.Call.Args[j])
			verifAssert("def-use-chain-param-to-call-argument-has-edge", len(pn.Out()[argNode]) > 0)
			verifAssert("call-argument-edge-mirrored", hHasInEdge(pn, argNode))
		}
	}
	// returned values
	for k := 0; k < nRes; k++ {
		rn := sm.Returns[ret][k]
		r := retPick[k]
		if r < len(vals) {
			if from[r] >= 0 {
				pn := sm.Params[f.params[from[r]]]
				verifAssert("def-use-chain-param-to-result-has-edge", len(pn.Out()[rn]) > 0)
			}
		} else {
			t := callIdx[r-len(vals)]
			verifAssert("call-result-to-return-has-edge-with-its-tuple-index", hHasOutEdge(cn, rn, t))
			verifAssert("call-result-edge-mirrored", hHasInEdge(cn, rn))
		}
	}
}

// Harness_C08_memory_fields_builtins: def-use chains through a local memory cell (alloc/store/load), a struct field
// (Field, FieldAddr+load), slice elements (IndexAddr+load) and handled builtins (min/max/append/len), each fed by a
// symbolically chosen parameter, summarised by the real RunIntraProcedural: the parameter reaches the result.
func Harness_C08_memory_fields_builtins() {
	shape := verifPick("shape", 0, 6)
	f := c08NewFn(1)
	intT := f.intT
	ptrInt := types.Type(types.NewPointer(intT))
	pkg := types.NewPackage("example.com/p", "p")
	structT := types.NewStruct([]*types.Var{types.NewField(token.NoPos, pkg, "F", intT, false), types.NewField(token.NoPos, pkg, "G", intT, false)}, nil)
	sliceT := types.Type(types.NewSlice(intT))
	src := verifPick("source-param", 0, 1)
	x := f.params[src]
	other := f.params[1-src]
	var instrs []ssa.Instruction
	var result ssa.Value
	expectOther := false
	typed := func(i ssa.Instruction, t types.Type) ssa.Value {
		verifSetUnexported(i, "typ", t)
		instrs = append(instrs, i)
		return i.(ssa.Value)
	}
	switch shape {
	case 0: // a = new(int); *a = x; return *a
		a := typed(&ssa.Alloc{}, ptrInt)
		instrs = append(instrs, &ssa.Store{Addr: a, Val: x})
		result = typed(&ssa.UnOp{Op: token.MUL, X: a}, intT)
	case 1: // x is a struct value: return x.F / x.G
		verifSetUnexported(x, "typ", types.Type(structT))
		result = typed(&ssa.Field{X: x, Field: verifPick("field", 0, 1)}, intT)
	case 2: // x is a pointer to struct: return x.F
		verifSetUnexported(x, "typ", types.Type(types.NewPointer(structT)))
		fa := typed(&ssa.FieldAddr{X: x, Field: verifPick("field", 0, 1)}, ptrInt)
		result = typed(&ssa.UnOp{Op: token.MUL, X: fa}, intT)
	case 3: // x is a slice, other is the index: return x[other]
		verifSetUnexported(x, "typ", sliceT)
		ia := typed(&ssa.IndexAddr{X: x, Index: other}, ptrInt)
		result = typed(&ssa.UnOp{Op: token.MUL, X: ia}, intT)
		expectOther = true
	case 4: // return max(x, other) / min(x, other)
		name := []string{"max", "min"}[verifPick("builtin", 0, 1)]
		b := &ssa.Builtin{}
		verifSetUnexported(b, "name", name)
		verifSetUnexported(b, "sig", hSig(2, 1))
		c := &ssa.Call{}
		c.Call.Value = b
		c.Call.Args = []ssa.Value{x, other}
		result = typed(c, intT)
		expectOther = true
	case 5: // x is a slice: return append(x, other)
		verifSetUnexported(x, "typ", sliceT)
		b := &ssa.Builtin{}
		verifSetUnexported(b, "name", "append")
		verifSetUnexported(b, "sig", hSig(2, 1))
		c := &ssa.Call{}
		c.Call.Value = b
		c.Call.Args = []ssa.Value{x, other}
		result = typed(c, sliceT)
		expectOther = true
	default: // store through a pointer parameter is visible to the caller: *x = other (x pointer); return nothing new
		a := typed(&ssa.Alloc{}, ptrInt)
		instrs = append(instrs, &ssa.Store{Addr: a, Val: x})
		l := typed(&ssa.UnOp{Op: token.MUL, X: a}, intT)
		result = typed(&ssa.BinOp{Op: token.ADD, X: l, Y: other}, intT)
		expectOther = true
	}
	ret := &ssa.Return{Results: []ssa.Value{result}}
	instrs = append(instrs, ret)
	b0 := f.block(0, instrs)
	f.fn.Blocks = []*ssa.BasicBlock{b0}
	sm := f.summarise(verifBool("path-sensitive"))
	verifReach("summarised")
	f.expectEdge(sm, ret, 0, src, true)
	if expectOther {
		f.expectEdge(sm, ret, 0, 1-src, true)
	}
}
