package dataflow

import (
	"go/token"
	"go/types"

	"github.com/awslabs/ar-go-tools/analysis/config"
	"github.com/awslabs/ar-go-tools/internal/pointer"
	"golang.org/x/tools/go/callgraph"
	"golang.org/x/tools/go/ssa"
)

// C07 kernels: the termination arguments of the inter-procedural traversals (lasso detection on the call-stack tree,
// context-size limit, recursion cut) and calling-context enumeration on recursive call structures.

type c07Label struct{ name string }

func (l *c07Label) ID() uint32                          { return 0 }
func (l *c07Label) LongID() string                      { return l.name }
func (l *c07Label) Graph() *SummaryGraph                { return nil }
func (l *c07Label) Out() map[GraphNode][]EdgeInfo       { return nil }
func (l *c07Label) In() map[GraphNode]EdgeInfo          { return nil }
func (l *c07Label) ParentName() string                  { return "" }
func (l *c07Label) Position(*AnalyzerState) token.Position { return token.Position{} }
func (l *c07Label) String() string                      { return l.name }
func (l *c07Label) Type() types.Type                    { return nil }
func (l *c07Label) Marks() LocSet                       { return nil }
func (l *c07Label) SetLocs(LocSet)                      {}
func (l *c07Label) Equal(n GraphNode) bool {
	o, ok := n.(*c07Label)
	return ok && o == l
}

// Harness_C07_lasso: a trace has a lasso handle exactly when its last label already occurs among its proper
// ancestors, so a trace that is only extended while there is no lasso is bounded by the number of labels.
func Harness_C07_lasso() {
	labels := []*c07Label{{"a"}, {"b"}, {"c"}}
	maxLen := 4
	if verifTier() > 0 {
		maxLen = 5
	}
	n := verifPick("trace-length", 1, maxLen)
	var tree *NodeTree[*c07Label]
	var seq []int
	for i := 0; i < n; i++ {
		k := verifPick("label", 0, 2)
		child := tree.Add(labels[k])
		seq = append(seq, k)
		verifAssert("add-extends-by-one", child.Len() == len(seq))
		// adding the same label again returns the existing child
		if tree != nil {
			again := tree.Add(labels[k])
			verifAssert("add-is-idempotent-per-label", again == child)
		}
		tree = child
		// lasso oracle
		repeated := false
		for j := 0; j < len(seq)-1; j++ {
			if seq[j] == k {
				repeated = true
			}
		}
		verifAssert("lasso-iff-last-label-repeats-an-ancestor", (tree.GetLassoHandle() != nil) == repeated)
		sl := tree.ToSlice()
		verifAssert("toslice-length", len(sl) == len(seq))
		for j := range sl {
			verifAssert("toslice-order", sl[j] == labels[seq[j]])
		}
	}
	verifReach("trace-built")
	// Append: extends the receiver by the tail of a trace that starts with the receiver's label, else nil
	other := NewNodeTree(labels[verifPick("append-root", 0, 2)])
	m := verifPick("append-length", 0, 2)
	var tail []int
	for i := 0; i < m; i++ {
		k := verifPick("append-label", 0, 2)
		other = other.Add(labels[k])
		tail = append(tail, k)
	}
	joined := tree.Append(other)
	rootMatches := other.ToSlice()[0] == labels[seq[len(seq)-1]]
	verifAssert("append-nil-iff-first-label-differs", (joined == nil) == !rootMatches)
	if joined != nil {
		js := joined.ToSlice()
		verifAssert("append-length", len(js) == len(seq)+len(tail))
		for j := range js {
			if j < len(seq) {
				verifAssert("append-keeps-prefix", js[j] == labels[seq[j]])
			} else if j-len(seq) < len(tail) {
				verifAssert("append-adds-tail-in-order", js[j] == labels[tail[j-len(seq)]])
			}
		}
	}
	var nilTree *NodeTree[*c07Label]
	verifAssert("nil-trace-has-no-lasso", nilTree.GetLassoHandle() == nil)
	verifAssert("nil-trace-len", nilTree.Len() == 0)
}

func c07Stack(nodes []*CallNode, n int) (*CallStack, []int) {
	var st *CallStack
	var seq []int
	for i := 0; i < n; i++ {
		k := verifPick("frame", 0, len(nodes)-1)
		// stacks extended by the enumeration never repeat a call node; build without Add's child sharing
		st = &CallStack{Label: nodes[k], Parent: st}
		seq = append(seq, k)
	}
	return st, seq
}

// Harness_C07_context_limit: hasReachedContextLimit and isRecursive, for every limit.
func Harness_C07_context_limit() {
	caller, _, _ := hFunc("caller", 1, 1, 1)
	g := NewSummaryGraph(nil, caller, 1, nil, nil)
	var nodes []*CallNode
	shared, _, _ := hFunc("callee", 1, 1, 1)
	for i := 0; i < 3; i++ {
		// the first two call sites call the same function: a call site is recursive only if that very call site
		// is on the stack, not when another call to the same callee is
		callee := shared
		if i == 2 {
			callee, _, _ = hFunc("other", 1, 1, 1)
		}
		call := &ssa.Call{}
		call.Call.Value = callee
		nodes = append(nodes, hNewCallNode(g, call, callee, nil))
	}
	n := verifPick("stack-length", 0, 4)
	st, seq := c07Stack(nodes, n)
	limit := verifInt("max-entrypoint-context-size")
	verifReach("stack-built")
	verifAssert("limit-reached-iff-positive-limit-and-stack-at-least-as-long",
		hasReachedContextLimit(st, limit) == verifAnd(limit > 0, n >= limit))
	k := verifPick("candidate", 0, 2)
	onStack := false
	for _, s := range seq {
		if s == k {
			onStack = true
		}
	}
	verifAssert("recursive-iff-call-node-on-stack", isRecursive(st, nodes[k]) == onStack)
}

// Harness_C07_contexts_terminate: calling-context enumeration terminates on arbitrary (also recursive) call
// structures over three functions and returns stacks without repeated call sites, bounded by the limit.
func Harness_C07_contexts_terminate() {
	nf := 2
	if verifTier() > 0 {
		nf = 3
	}
	var fns []*ssa.Function
	var graphs []*SummaryGraph
	for i := 0; i < nf; i++ {
		fn, _, _ := hFunc("f", 1, 1, 1)
		fns = append(fns, fn)
		graphs = append(graphs, NewSummaryGraph(nil, fn, uint32(i+1), nil, nil))
	}
	var all []*CallNode
	for i := 0; i < nf; i++ {
		for j := 0; j < nf; j++ {
			if verifBool("calls") {
				call := &ssa.Call{}
				call.Call.Value = fns[j]
				cn := hNewCallNode(graphs[i], call, fns[j], nil)
				graphs[j].Callsites[call] = cn
				all = append(all, cn)
			}
		}
	}
	// the node whose contexts are enumerated: a call to an external source inside function 0
	src, _, _ := hFunc("source", 0, 1, 1)
	scall := &ssa.Call{}
	scall.Call.Value = src
	start := hNewCallNode(graphs[0], scall, src, nil)
	limit := verifInt("max-entrypoint-context-size")
	s := &AnalyzerState{
		Config:          &config.Config{},
		Logger:          &config.LogGroup{},
		PointerAnalysis: &pointer.Result{CallGraph: &callgraph.Graph{Root: &callgraph.Node{}}},
		FlowGraph:       &InterProceduralFlowGraph{Summaries: map[*ssa.Function]*SummaryGraph{}},
	}
	// the last function is the program entry: the root of the call graph calls it
	mainFn := fns[nf-1]
	s.FlowGraph.Summaries[mainFn] = graphs[nf-1]
	root := s.PointerAnalysis.CallGraph.Root
	root.Out = []*callgraph.Edge{{Caller: root, Callee: &callgraph.Node{Func: mainFn}}}
	s.Config.MaxEntrypointContextSize = limit
	verifTerminatesWithin("context-enumeration-terminates", 2000000)
	res := GetAllCallingContexts(s, start)
	verifTerminated()
	verifReach("enumerated")
	for _, st := range res {
		frames := st.ToSlice()
		verifAssert("context-bounded-by-limit", verifImplies(limit > 0, len(frames) <= limit))
		verifAssert("context-bounded-by-call-sites", len(frames) <= len(all)+1)
		for x := range frames {
			for y := x + 1; y < len(frames); y++ {
				verifAssert("context-has-no-repeated-call-site", frames[x] != frames[y])
			}
		}
		verifAssert("context-ends-at-the-node", frames[len(frames)-1] == start)
	}
}

// Harness_C07_access_paths_terminate: enumerating the access paths of a type terminates (and stays bounded) on
// recursive types, whichever way the recursion goes through: an embedded pointer to itself, a named field, a slice,
// an array, a map, or a cycle through a second type.
func Harness_C07_access_paths_terminate() {
	pkg := types.NewPackage("example.com/p", "p")
	intT := types.Type(types.Typ[types.Int])
	elem := types.NewNamed(types.NewTypeName(token.NoPos, pkg, "Elem", nil), nil, nil)
	other := types.NewNamed(types.NewTypeName(token.NoPos, pkg, "Other", nil), nil, nil)
	var selfRef types.Type
	switch verifPick("recursion-through", 0, 5) {
	case 0:
		selfRef = types.NewPointer(elem)
	case 1:
		selfRef = types.NewSlice(elem)
	case 2:
		selfRef = types.NewMap(types.Typ[types.String], types.NewPointer(elem))
	case 3:
		selfRef = types.NewArray(types.NewPointer(elem), 2)
	case 4:
		selfRef = types.NewPointer(other) // Elem -> *Other -> *Elem
	default:
		selfRef = types.NewPointer(types.NewPointer(elem))
	}
	embedded := verifBool("embedded-field")
	name := "next"
	if embedded {
		name = "Elem"
		if _, isPtr := selfRef.(*types.Pointer); !isPtr {
			embedded = false // only (pointers to) named types can be embedded
			name = "next"
		}
	}
	elem.SetUnderlying(types.NewStruct([]*types.Var{
		types.NewField(token.NoPos, pkg, name, selfRef, embedded),
		types.NewField(token.NoPos, pkg, "value", intT, false)}, nil))
	other.SetUnderlying(types.NewStruct([]*types.Var{
		types.NewField(token.NoPos, pkg, "Elem", types.NewPointer(elem), verifBool("second-type-embeds")),
		types.NewField(token.NoPos, pkg, "n", intT, false)}, nil))
	var t types.Type = elem
	if verifBool("start-from-pointer") {
		t = types.NewPointer(elem)
	}
	verifTerminatesWithin("access-path-enumeration-terminates", 3000000)
	paths := AccessPathsOfType(t)
	verifTerminated()
	verifReach("paths-enumerated")
	verifAssert("access-paths-are-bounded", len(paths) <= 64)
	for _, p := range paths {
		verifAssert("access-path-length-is-bounded", accessPathLen(p) <= maxAccessPathLength+2)
	}
}
