package dataflow

import (
	"github.com/awslabs/ar-go-tools/analysis/summaries"
	"golang.org/x/tools/go/ssa"
)

// C09: (1) loader lemma - a by-position edge of a predefined summary is accepted exactly when both positions exist in
// the function's signature (so "dropped without diagnostic" <=> out of range); (2) every entry of the built-in table
// (regenerated from /repo and GOROOT on every run, see engine/c09gen.go) loses no asserted flow.

func c09External(np, nr int) (*ssa.Function, []*ssa.Parameter) {
	fn := &ssa.Function{Signature: hSig(np, nr)}
	verifSetUnexported(fn, "name", "ext")
	var params []*ssa.Parameter
	for i := 0; i < np; i++ {
		p := hParam("p")
		verifSetUnexported(p, "parent", fn)
		params = append(params, p)
	}
	fn.Params = params
	return fn, params
}

func c09RetNodes(g *SummaryGraph) []*ReturnValNode {
	for _, r := range g.Returns {
		return r
	}
	return nil
}

// Harness_C09_loader_lemma: symbolic positions against symbolic arity.
func Harness_C09_loader_lemma() {
	np := verifPick("params", 0, 4)
	nr := verifPick("results", 0, 3)
	if verifTier() > 0 {
		np = verifPick("params+", np, 6)
	}
	fn, params := c09External(np, nr)
	g := NewSummaryGraph(nil, fn, 1, nil, nil)
	i := verifIntIn("src", -2, 8)
	j := verifIntIn("dst", -2, 8)
	isRet := verifBool("to-result")
	var ok bool
	if isRet {
		ok = g.addReturnEdgeByPos(i, j)
	} else {
		ok = g.addParamEdgeByPos(i, j)
	}
	verifReach("loaded")
	rets := c09RetNodes(g)
	if isRet {
		verifAssert("return-edge-accepted-iff-positions-exist", ok == verifAnd(verifAnd(i >= 0, i < np), verifAnd(j >= 0, j < nr)))
	} else {
		verifAssert("param-edge-accepted-iff-positions-exist", ok == verifAnd(verifAnd(i >= 0, i < np), verifAnd(j >= 0, j < np)))
	}
	total := 0
	for pi, p := range params {
		pn := g.Params[p]
		total += len(pn.out)
		if ok && pi == i {
			if isRet {
				verifAssert("accepted-return-edge-is-present-and-mirrored", verifAnd(len(pn.out[rets[j]]) == 1, hHasInEdge(pn, rets[j])))
			} else {
				qn := g.Params[params[j]]
				verifAssert("accepted-param-edge-is-present-and-mirrored", verifAnd(len(pn.out[qn]) == 1, hHasInEdge(pn, qn)))
			}
		}
	}
	if ok {
		verifAssert("exactly-one-edge-added", total == 1)
	} else {
		verifAssert("rejected-position-leaves-graph-unchanged", total == 0)
	}
}

// Harness_C09_table: every entry of the built-in table against the real signature: a flow listed from an existing
// argument to a class of targets that exists must be accepted by the loader (otherwise it is silently lost).
func Harness_C09_table() {
	verifAssert("table-is-not-empty", len(c09Table) > 100)
	k := verifPick("entry", 0, len(c09Table)-1)
	e := c09Table[k]
	fn, params := c09External(e.NP, e.NR)
	g := NewSummaryGraph(nil, fn, 1, nil, nil)
	g.PopulateGraphFromSummary(summaries.Summary{Args: e.Args, Rets: e.Rets}, false)
	verifReach("entry-loaded")
	rets := c09RetNodes(g)
	for i, row := range e.Rets {
		for _, j := range row {
			if i < e.NP && e.NR > 0 {
				ok := j >= 0 && j < e.NR && len(g.Params[params[i]].out[rets[j]]) > 0
				verifAssert("listed-flow-to-result-is-not-dropped: "+e.Key, ok)
			}
		}
	}
	for i, row := range e.Args {
		for _, j := range row {
			if i < e.NP && e.NP > 0 {
				ok := j >= 0 && j < e.NP && len(g.Params[params[i]].out[g.Params[params[j]]]) > 0
				verifAssert("listed-flow-to-argument-is-not-dropped: "+e.Key, ok)
			}
		}
	}
}
