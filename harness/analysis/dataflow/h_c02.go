package dataflow

import (
	"go/token"
	"go/types"

	"golang.org/x/tools/go/ssa"
)

// C02 kernel: the conditions attached to a flow are those of one block path (FindPathBetweenBlocks +
// SimplePathCondition). P-valid: the path is a real path and each condition is an If on it with the taken polarity.
// P-exclusive: the condition holds on every path (known finding KF-C02-single-path: it does not).

type c02Block struct {
	term   int // 0 return, 1 jump, 2 if
	s0, s1 int
}

func c02Build(n int) ([]*ssa.BasicBlock, []c02Block, []ssa.Value) {
	blocks := make([]*ssa.BasicBlock, n)
	shape := make([]c02Block, n)
	conds := make([]ssa.Value, n)
	fn := &ssa.Function{}
	for i := range blocks {
		blocks[i] = &ssa.BasicBlock{Index: i}
	}
	for i := range blocks {
		sh := &shape[i]
		sh.term = verifPick("term", 0, 2)
		switch sh.term {
		case 0:
			hSetBlock(fn, blocks[i], []ssa.Instruction{&ssa.Return{}})
		case 1:
			sh.s0 = verifPick("succ", 0, n-1)
			blocks[i].Succs = []*ssa.BasicBlock{blocks[sh.s0]}
			hSetBlock(fn, blocks[i], []ssa.Instruction{&ssa.Jump{}})
		case 2:
			sh.s0 = verifPick("succ", 0, n-1)
			sh.s1 = verifPick("succ", 0, n-1)
			conds[i] = hParam("c")
			blocks[i].Succs = []*ssa.BasicBlock{blocks[sh.s0], blocks[sh.s1]}
			hSetBlock(fn, blocks[i], []ssa.Instruction{&ssa.If{Cond: conds[i]}})
		}
	}
	fn.Blocks = blocks
	return blocks, shape, conds
}

func c02Succs(sh c02Block) []int {
	switch sh.term {
	case 1:
		return []int{sh.s0}
	case 2:
		return []int{sh.s0, sh.s1}
	}
	return nil
}

// c02ReachAvoiding: is target reachable from a successor of begin in >=1 steps without using edge (ai -> aj via slot)?
func c02Reach(shape []c02Block, begin, target int, avoidBlock, avoidSlot int) bool {
	n := len(shape)
	seen := make([]bool, n)
	var stack []int
	push := func(from int) {
		for slot, s := range c02Succs(shape[from]) {
			if from == avoidBlock && slot == avoidSlot {
				continue
			}
			if !seen[s] {
				seen[s] = true
				stack = append(stack, s)
			}
		}
	}
	push(begin)
	for len(stack) > 0 {
		cur := stack[len(stack)-1]
		stack = stack[:len(stack)-1]
		if cur == target {
			return true
		}
		push(cur)
	}
	return seen[target]
}

func c02Run(n int, exclusive bool) {
	blocks, shape, conds := c02Build(n)
	begin := verifPick("begin", 0, n-1)
	end := verifPick("end", 0, n-1)
	verifTerminatesWithin("path-search-terminates", 500000)
	path := FindPathBetweenBlocks(blocks[begin], blocks[end])
	verifTerminated()
	verifReach("searched")
	reachable := c02Reach(shape, begin, end, -1, -1)
	verifAssert("path-found-iff-reachable", (path != nil) == reachable)
	if path == nil {
		return
	}
	verifAssert("path-starts-at-begin", path[0] == blocks[begin])
	verifAssert("path-ends-at-end", path[len(path)-1] == blocks[end])
	real := path
	verifAssert("path-has-at-least-one-step", len(real) >= 2)
	for i := 0; i+1 < len(real); i++ {
		isEdge := false
		for _, s := range real[i].Succs {
			if s == real[i+1] {
				isEdge = true
			}
		}
		verifAssert("consecutive-path-blocks-are-cfg-edges", isEdge)
	}
	// expected conditions: every If block on the path proper, with the polarity of the successor that was taken
	var want []Condition
	for i := 0; i+1 < len(real); i++ {
		b := real[i]
		if shape[b.Index].term == 2 {
			if real[i+1] == b.Succs[0] {
				want = append(want, Condition{IsPositive: true, Value: conds[b.Index]})
			} else {
				want = append(want, Condition{IsPositive: false, Value: conds[b.Index]})
			}
		}
	}
	got := SimplePathCondition(path)
	verifAssert("path-condition-satisfiable", got.Satisfiable)
	// compared as sets: a repeated condition is harmless
	in := func(c Condition, l []Condition) bool {
		for _, x := range l {
			if x == c {
				return true
			}
		}
		return false
	}
	onlyTaken, allTaken := true, true
	for _, c := range got.Conditions {
		if !in(c, want) {
			onlyTaken = false
		}
	}
	for _, c := range want {
		if !in(c, got.Conditions) {
			allTaken = false
		}
	}
	verifAssert("every-condition-is-a-branch-taken-on-the-path", onlyTaken)
	verifAssert("every-branch-taken-on-the-path-is-a-condition", allTaken)
	if !exclusive {
		return
	}
	// P-exclusive: a reported condition must hold on every path from begin to end
	for _, c := range got.Conditions {
		for i := 0; i < n; i++ {
			if shape[i].term == 2 && conds[i] == c.Value {
				slot := 0
				if !c.IsPositive {
					slot = 1
				}
				bypass := c02Reach(shape, begin, end, i, slot)
				verifAssertKnown("condition-holds-on-every-path", "KF-C02-single-path", bypass, !bypass)
			}
		}
	}
}

// Harness_C02_paths_3: every CFG of 3 blocks: the path is real and its conditions are the branches taken (P-valid).
func Harness_C02_paths_3() { c02Run(3, false) }

// Harness_C02_exclusive_3: additionally, a reported condition holds on every path (P-exclusive; known finding).
func Harness_C02_exclusive_3() { c02Run(3, true) }

// Harness_C02_predicate_applies: a validator condition is attached to a value only if the validated argument covers
// that value: the value is the argument itself, a field load / tuple component of it, or an interface conversion of
// one of them - validating one field of a struct does not validate the whole struct.
func Harness_C02_predicate_applies() {
	pkg := types.NewPackage("example.com/p", "p")
	boolT := types.Type(types.Typ[types.Bool])
	strT := types.Type(types.Typ[types.String])
	structT := types.NewStruct([]*types.Var{types.NewField(token.NoPos, pkg, "Name", strT, false)}, nil)
	ptrT := types.NewPointer(structT)
	sig := types.NewSignatureType(nil, nil, nil, types.NewTuple(types.NewVar(token.NoPos, pkg, "x", strT)), types.NewTuple(types.NewVar(token.NoPos, pkg, "", boolT)), false)
	callee := &ssa.Function{Signature: sig, Pkg: &ssa.Package{Pkg: pkg}}
	verifSetUnexported(callee, "name", "Validate")
	fn := &ssa.Function{Signature: types.NewSignatureType(nil, nil, nil, nil, nil, false), Pkg: &ssa.Package{Pkg: pkg}}
	verifSetUnexported(fn, "name", "f")
	blk := &ssa.BasicBlock{Index: 0}
	verifSetUnexported(blk, "parent", fn)
	mk := func(i ssa.Instruction, t types.Type) ssa.Value {
		verifSetUnexported(i, "typ", t)
		verifSetUnexported(i, "block", blk)
		return i.(ssa.Value)
	}
	// the universe of values: r (pointer to struct), load of r.Name, a second load of r.Name, an unrelated q,
	// and interface conversions of r and of the field load
	r := hParam("r")
	verifSetUnexported(r, "typ", types.Type(ptrT))
	q := hParam("q")
	verifSetUnexported(q, "typ", types.Type(ptrT))
	fa := mk(&ssa.FieldAddr{X: r, Field: 0}, types.NewPointer(strT))
	ld := mk(&ssa.UnOp{Op: token.MUL, X: fa}, strT)
	fa2 := mk(&ssa.FieldAddr{X: r, Field: 0}, types.NewPointer(strT))
	ld2 := mk(&ssa.UnOp{Op: token.MUL, X: fa2}, strT)
	ir := mk(&ssa.MakeInterface{X: r}, types.NewInterfaceType(nil, nil))
	ild := mk(&ssa.MakeInterface{X: ld}, types.NewInterfaceType(nil, nil))
	vals := []ssa.Value{r, ld, ld2, q, ir, ild}
	// covers[a][v]: validating a validates v. Whole struct r covers its field loads and conversions; a field load
	// covers (only) loads of the same field and their conversions; q is unrelated to everything else.
	covers := [][]bool{
		/* r   */ {true, true, true, false, true, true},
		/* ld  */ {false, true, true, false, false, true},
		/* ld2 */ {false, true, true, false, false, true},
		/* q   */ {false, false, false, true, false, false},
		/* ir  */ {true, true, true, false, true, true},
		/* ild */ {false, true, true, false, false, true},
	}
	ai := verifPick("validated-argument", 0, len(vals)-1)
	vi := verifPick("value-reaching-the-sink", 0, len(vals)-1)
	call := &ssa.Call{}
	call.Call.Value = callee
	call.Call.Args = []ssa.Value{vals[ai]}
	mk(call, boolT)
	var cond ssa.Value = call
	if verifBool("negated") {
		cond = mk(&ssa.UnOp{Op: token.NOT, X: call}, boolT)
	}
	got := Condition{IsPositive: true, Value: cond}.IsPredicateTo(vals[vi])
	verifReach("predicate-checked")
	verifAssert("condition-attached-only-if-validated-argument-covers-the-value", verifImplies(got, covers[ai][vi]))
	if ai == vi {
		verifAssert("validating-a-value-applies-to-that-value", got)
	}
}
