package dataflow

import (
	"go/token"
	"go/types"

	"golang.org/x/tools/go/ssa"
)

// C01 / C08 kernel K01a: a parameter mark that reaches result k of a return is connected to return node k.
func Harness_C01_return_edge() {
	maxRet, maxRes := 3, 4
	nRet := verifIntIn("returns", 1, maxRet)
	nRes := verifIntIn("results", 1, maxRes)
	fn, params, rets := hFunc("f", 1, nRes, nRet)
	g := NewSummaryGraph(nil, fn, 1, nil, nil)
	j := verifIntIn("which-return", 0, nRet-1)
	k := verifIntIn("tuple-index", 0, nRes-1)
	m := NewMark(params[0], Parameter, nil, NonIndexMark, "")
	mark := MarkWithAccessPath{Mark: &m, AccessPath: ""}
	g.addReturnEdge(mark, nil, rets[j], k)
	verifReach("edge-added")
	pn := g.Params[params[0]]
	verifAssert("graph-has-return-nodes", len(g.Returns[rets[j]]) == nRes)
	rn := g.Returns[rets[j]][k]
	verifAssert("param-to-return-k-out-edge", hHasOutEdge(pn, rn, -1))
	verifAssert("param-to-return-k-in-edge", hHasInEdge(pn, rn))
	verifAssert("return-node-index", rn.Index() == k)
	// no other return node receives the edge
	for i := 0; i < nRes; i++ {
		if i != k {
			verifAssert("no-edge-to-other-result", len(pn.Out()[g.Returns[rets[j]][i]]) == 0)
		}
	}
	// out-of-range indices are ignored without panicking
	g.addReturnEdge(mark, nil, rets[j], nRes+verifIntIn("beyond", 0, 2))
	g.addReturnEdge(mark, nil, rets[j], -1-verifIntIn("below", 0, 2))
	verifAssert("out-of-range-adds-nothing", len(pn.Out()) == 1)
}

var c01Names = []string{"append", "copy", "len", "cap", "min", "max", "complex", "real", "imag", "close", "delete",
	"clear", "print", "println", "recover", "ssa:wrapnilchk", "forward"}

// builtin arity allowed by the Go spec: lo..hi
func c01Arity(name string) (int, int) {
	switch name {
	case "append", "copy", "complex", "delete":
		return 2, 2
	case "len", "cap", "real", "imag", "close", "clear", "ssa:wrapnilchk":
		return 1, 1
	case "recover":
		return 0, 0
	case "min", "max":
		return 1, 4
	}
	return 0, 4
}

// Harness_C01_builtins: a call is "handled as a builtin" (no call node is created for it) only if it really is a
// builtin (or error.Error()), a handled call is processed by doBuiltinCall, and data-carrying builtins propagate marks.
func Harness_C01_builtins() {
	name := c01Names[verifIntIn("name", 0, len(c01Names)-1)]
	kind := verifIntIn("callee-kind", 0, 3) // 0 builtin, 1 function, 2 parameter (function value), 3 invoke on interface
	argc := verifIntIn("argc", 0, 4)
	if kind == 0 {
		lo, hi := c01Arity(name)
		verifAssume(name != "forward")
		verifAssume(verifAnd(argc >= lo, argc <= hi))
	}
	methodIsError := false
	if kind == 3 {
		methodIsError = verifBool("method-is-Error")
	}
	fn := &ssa.Function{Signature: hSig(argc+1, 1)}
	verifSetUnexported(fn, "name", "caller")
	var params []*ssa.Parameter
	for i := 0; i < argc+1; i++ {
		p := hParam("p")
		verifSetUnexported(p, "parent", fn)
		params = append(params, p)
	}
	fn.Params = params
	var callee ssa.Value
	switch kind {
	case 0:
		b := &ssa.Builtin{}
		verifSetUnexported(b, "name", name)
		verifSetUnexported(b, "sig", hSig(argc, 1))
		callee = b
	case 1:
		f := &ssa.Function{Signature: hSig(argc, 1)}
		verifSetUnexported(f, "name", name)
		callee = f
	default:
		p := params[argc] // the last parameter of the caller is the function / interface value
		verifSetUnexported(p, "name", name)
		if kind == 2 {
			verifSetUnexported(p, "typ", types.Type(hSig(argc, 1)))
		}
		callee = p
	}
	call := &ssa.Call{}
	call.Call.Value = callee
	for i := 0; i < argc; i++ {
		call.Call.Args = append(call.Call.Args, params[i])
	}
	if kind == 3 {
		mname := "Other"
		if methodIsError {
			mname = "Error"
		}
		call.Call.Method = types.NewFunc(token.NoPos, nil, mname, hSig(argc, 1))
	}
	ret := &ssa.Return{Results: []ssa.Value{call}}
	blk := &ssa.BasicBlock{Index: 0}
	hSetBlock(fn, blk, []ssa.Instruction{call, ret})
	fn.Blocks = []*ssa.BasicBlock{blk}

	state, _ := hState(fn, false)
	// one mark on a symbolically chosen operand (argument, or the receiver of an invoke)
	which := verifIntIn("marked-operand", 0, argc)
	var marked ssa.Value
	if which < argc {
		marked = params[which]
	} else {
		marked = params[argc]
	}
	mark := state.flowInfo.GetNewMark(marked.(ssa.Node), Parameter, nil, NonIndexMark)
	state.flowInfo.AddMark(call, marked, "", mark)

	handled := isHandledBuiltinCall(call)
	done := doBuiltinCall(state, call, &call.Call, call)
	verifReach("builtin-call-processed")
	isErrorCall := verifAnd(kind == 3, verifAnd(methodIsError, argc == 0))
	verifAssert("handled-only-if-real-builtin-or-error-call", verifImplies(handled, verifOr(kind == 0, isErrorCall)))
	verifAssert("handled-implies-processed", verifImplies(handled, done))
	verifAssert("processed-implies-handled", verifImplies(done, handled))
	if kind == 0 {
		verifAssert("every-known-builtin-is-handled", handled)
		propagates := false
		switch name {
		case "append", "min", "max", "complex", "real", "imag", "ssa:wrapnilchk":
			propagates = which < argc
		}
		if propagates {
			verifAssert("data-carrying-builtin-propagates-mark-to-result", state.flowInfo.HasMarkAt(call, call, "", mark))
		}
		if name == "copy" && which == 1 {
			verifAssert("copy-propagates-source-to-destination", state.flowInfo.HasMarkAt(call, params[0], "", mark))
		}
		if name == "append" && which == 1 {
			verifAssert("append-propagates-data-to-slice", state.flowInfo.HasMarkAt(call, params[0], "", mark))
		}
	}
	if kind == 3 && methodIsError && argc == 0 && which == argc {
		verifAssert("error-call-propagates-receiver-to-result", state.flowInfo.HasMarkAt(call, call, "", mark))
	}
}
