package dataflow

import (
	"go/token"

	"github.com/awslabs/ar-go-tools/analysis/config"
	"golang.org/x/tools/go/ssa"
)

// Export shim for harnesses that live in other packages (backtrace, taint): thin wrappers around unexported
// constructors and updateEdgeInfo. Overlay only; never part of the repository.

// VerifEdgeWorld is a caller summary with a call node Src (whose callee summary has NRes return nodes) and the
// argument node Dst of a second call that receives data from Src.
type VerifEdgeWorld struct {
	G      *SummaryGraph
	Src    *CallNode
	Dst    *CallNodeArg
	Rets   []*ReturnValNode
	Call   *ssa.Call
	State  *AnalyzerState
	Callee *SummaryGraph
}

func VerifNewEdgeWorld(nRes int) *VerifEdgeWorld {
	w := &VerifEdgeWorld{}
	caller, _, _ := hFunc("caller", 1, 1, 1)
	w.G = NewSummaryGraph(nil, caller, 1, nil, nil)
	calleeFn, _, crets := hFunc("two", 1, nRes, 1)
	w.Callee = NewSummaryGraph(nil, calleeFn, 2, nil, nil)
	w.Callee.Constructed = true
	w.Rets = w.Callee.Returns[crets[0]]
	w.Call = &ssa.Call{}
	w.Call.Call.Value = calleeFn
	a := hParam("a")
	w.Call.Call.Args = []ssa.Value{a}
	w.Src = hNewCallNode(w.G, w.Call, calleeFn, []ssa.Value{a})
	w.Src.CalleeSummary = w.Callee
	sinkFn, _, _ := hFunc("sink", 1, 0, 1)
	sinkCall := &ssa.Call{}
	sinkCall.Call.Value = sinkFn
	x := hParam("x")
	sinkCall.Call.Args = []ssa.Value{x}
	sink := hNewCallNode(w.G, sinkCall, sinkFn, []ssa.Value{x})
	w.Dst = sink.args[0]
	w.State = &AnalyzerState{Config: &config.Config{}, Logger: &config.LogGroup{},
		Program: &ssa.Program{Fset: token.NewFileSet()}}
	return w
}

// VerifAddCallReturnEdge records that result #tupleIndex (or the whole result when < 0) of Src flows to Dst.
func (w *VerifEdgeWorld) VerifAddCallReturnEdge(tupleIndex int, accessPath string) {
	idx := NonIndexMark
	if tupleIndex >= 0 {
		idx = NewIndex(tupleIndex)
	}
	m := NewMark(w.Call, CallReturn, nil, idx, "")
	w.G.addEdge(MarkWithAccessPath{Mark: &m, AccessPath: accessPath}, w.Dst, nil)
}
