package dataflow

import (
	"go/constant"
	"go/token"
	"go/types"

	"github.com/awslabs/ar-go-tools/analysis/config"
	"github.com/awslabs/ar-go-tools/analysis/summaries"
	"github.com/awslabs/ar-go-tools/internal/pointer"
	"golang.org/x/tools/go/ssa"
)

// Export shim for harnesses that live in other packages (backtrace, taint): thin wrappers around unexported
// constructors and updateEdgeInfo. Overlay only; never part of the repository.

// VerifEdgeWorld is a caller summary with a call node Src (whose callee summary has NRes return nodes) and the
// argument node Dst of a second call that receives data from Src.
type VerifEdgeWorld struct {
	G      *SummaryGraph
	Src    *CallNode
	Dst    *CallNodeArg
	Rets   []*ReturnValNode
	Call   *ssa.Call
	State  *AnalyzerState
	Callee *SummaryGraph
}

func VerifNewEdgeWorld(nRes int) *VerifEdgeWorld {
	w := &VerifEdgeWorld{}
	caller, _, _ := hFunc("caller", 1, 1, 1)
	w.G = NewSummaryGraph(nil, caller, 1, nil, nil)
	calleeFn, _, crets := hFunc("two", 1, nRes, 1)
	w.Callee = NewSummaryGraph(nil, calleeFn, 2, nil, nil)
	w.Callee.Constructed = true
	w.Rets = w.Callee.Returns[crets[0]]
	w.Call = &ssa.Call{}
	w.Call.Call.Value = calleeFn
	a := hParam("a")
	w.Call.Call.Args = []ssa.Value{a}
	w.Src = hNewCallNode(w.G, w.Call, calleeFn, []ssa.Value{a})
	w.Src.CalleeSummary = w.Callee
	sinkFn, _, _ := hFunc("sink", 1, 0, 1)
	sinkCall := &ssa.Call{}
	sinkCall.Call.Value = sinkFn
	x := hParam("x")
	sinkCall.Call.Args = []ssa.Value{x}
	sink := hNewCallNode(w.G, sinkCall, sinkFn, []ssa.Value{x})
	w.Dst = sink.args[0]
	w.State = &AnalyzerState{Config: &config.Config{}, Logger: &config.LogGroup{},
		Program: &ssa.Program{Fset: token.NewFileSet()}}
	return w
}

// VerifAddCallReturnEdge records that result #tupleIndex (or the whole result when < 0) of Src flows to Dst.
func (w *VerifEdgeWorld) VerifAddCallReturnEdge(tupleIndex int, accessPath string) {
	idx := NonIndexMark
	if tupleIndex >= 0 {
		idx = NewIndex(tupleIndex)
	}
	m := NewMark(w.Call, CallReturn, nil, idx, "")
	w.G.addEdge(MarkWithAccessPath{Mark: &m, AccessPath: accessPath}, w.Dst, nil)
}

// VerifMainWorld is a hand-built function `main`:
//
//	t0 = srcA(); t1 = srcB(); t2 = t[x] + t[y]; sink(v[a0], v[a1]); return
//
// summarised by the real NewSummaryGraph + RunIntraProcedural, with constructed (empty) summaries linked for the
// three external callees, as BuildGraph would do.
type VerifMainWorld struct {
	State   *AnalyzerState
	Main    *SummaryGraph
	SrcA    *CallNode
	SrcB    *CallNode
	Sink    *CallNode
	Err     error
	Origins [2][2]bool // Origins[j][o]: argument j of the sink derives from origin o (0 = srcA, 1 = srcB)
}

func verifExternal(name string, np, nr int, pkg *ssa.Package) *ssa.Function {
	fn := &ssa.Function{Signature: hSig(np, nr), Pkg: pkg}
	verifSetUnexported(fn, "name", name)
	for i := 0; i < np; i++ {
		p := hParam("p")
		verifSetUnexported(p, "parent", fn)
		verifSetUnexported(p, "typ", types.Type(types.Typ[types.Int]))
		verifSetUnexported(p, "object", types.NewVar(token.NoPos, nil, "p", types.Typ[types.Int]))
		fn.Params = append(fn.Params, p)
	}
	return fn
}

func VerifNewMainWorld(x, y, a0, a1 int) *VerifMainWorld {
	w := &VerifMainWorld{}
	intT := types.Type(types.Typ[types.Int])
	pkg := &ssa.Package{Pkg: types.NewPackage("example.com/p", "p")}
	prog := &ssa.Program{Fset: token.NewFileSet()}
	mainFn := &ssa.Function{Signature: hSig(0, 0), Prog: prog, Pkg: pkg}
	verifSetUnexported(mainFn, "name", "main")
	srcA := verifExternal("srcA", 0, 1, pkg)
	srcB := verifExternal("srcB", 0, 1, pkg)
	sink := verifExternal("sink", 2, 0, pkg)
	blk := &ssa.BasicBlock{Index: 0}
	mk := func(i ssa.Instruction, t types.Type) ssa.Instruction {
		if t != nil {
			verifSetUnexported(i, "typ", t)
		}
		return i
	}
	cA := &ssa.Call{}
	cA.Call.Value = srcA
	cB := &ssa.Call{}
	cB.Call.Value = srcB
	mk(cA, intT)
	mk(cB, intT)
	ts := []ssa.Value{cA, cB}
	sum := &ssa.BinOp{Op: token.ADD, X: ts[x], Y: ts[y]}
	mk(sum, intT)
	vals := []ssa.Value{cA, cB, sum}
	from := [][2]bool{{true, false}, {false, true}, {x == 0 || y == 0, x == 1 || y == 1}}
	cS := &ssa.Call{}
	cS.Call.Value = sink
	cS.Call.Args = []ssa.Value{vals[a0], vals[a1]}
	mk(cS, types.Type(types.NewTuple()))
	w.Origins = [2][2]bool{from[a0], from[a1]}
	ret := &ssa.Return{}
	hSetBlock(mainFn, blk, []ssa.Instruction{cA, cB, sum, cS, ret})
	mainFn.Blocks = []*ssa.BasicBlock{blk}

	cfg := &config.Config{}
	s := &AnalyzerState{
		Config:          cfg,
		Logger:          &config.LogGroup{},
		Program:         prog,
		PointerAnalysis: &pointer.Result{Queries: map[ssa.Value]pointer.Pointer{}, IndirectQueries: map[ssa.Value]pointer.Pointer{}},
		Globals:         map[*ssa.Global]*GlobalNode{},
		FlowGraph:       &InterProceduralFlowGraph{Summaries: map[*ssa.Function]*SummaryGraph{}},
	}
	w.State = s
	track := func(*AnalyzerState, ssa.Node) bool { return false }
	w.Main = NewSummaryGraph(s, mainFn, 1, track, nil)
	_, w.Err = RunIntraProcedural(s, w.Main)
	s.FlowGraph.Summaries[mainFn] = w.Main
	link := func(call *ssa.Call, callee *ssa.Function, id uint32) *CallNode {
		sg := NewSummaryGraph(s, callee, id, track, nil)
		sg.Constructed = true
		s.FlowGraph.Summaries[callee] = sg
		cn := w.Main.Callees[call][callee]
		if cn != nil {
			cn.CalleeSummary = sg
			sg.Callsites[call] = cn
		}
		return cn
	}
	w.SrcA = link(cA, srcA, 2)
	w.SrcB = link(cB, srcB, 3)
	w.Sink = link(cS, sink, 4)
	return w
}

// VerifTaintWorld is a hand-built `main`:
//
//	t0 = source(); t1 = other(); r = g(t0, t1); sink(v) with v one of t0, t1, r
//
// main is summarised by the real intra-procedural analysis; g is an external function whose summary is loaded from
// a specification matrix by the real PopulateGraphFromSummary (as a dataflow-specs file would do).
type VerifTaintWorld struct {
	State  *AnalyzerState
	Main   *SummaryGraph
	Source *CallNode
	Sink   *CallNode
	G      *CallNode
	Err    error
}

func VerifNewTaintWorld(args, rets [][]int, sinkOperand int, sameValueTwice bool) *VerifTaintWorld {
	w := &VerifTaintWorld{}
	intT := types.Type(types.Typ[types.Int])
	pkg := &ssa.Package{Pkg: types.NewPackage("example.com/p", "p")}
	prog := &ssa.Program{Fset: token.NewFileSet()}
	mainFn := &ssa.Function{Signature: hSig(0, 0), Prog: prog, Pkg: pkg}
	verifSetUnexported(mainFn, "name", "main")
	source := verifExternal("source", 0, 1, pkg)
	other := verifExternal("other", 0, 1, pkg)
	g := verifExternal("g", 2, 1, pkg)
	sink := verifExternal("sink", 1, 0, pkg)
	blk := &ssa.BasicBlock{Index: 0}
	typed := func(i ssa.Instruction, t types.Type) { verifSetUnexported(i, "typ", t) }
	cSrc := &ssa.Call{}
	cSrc.Call.Value = source
	typed(cSrc, intT)
	cOther := &ssa.Call{}
	cOther.Call.Value = other
	typed(cOther, intT)
	cG := &ssa.Call{}
	cG.Call.Value = g
	cG.Call.Args = []ssa.Value{cSrc, cOther}
	if sameValueTwice {
		cG.Call.Args = []ssa.Value{cSrc, cSrc} // g(t0, t0)
	}
	typed(cG, intT)
	vals := []ssa.Value{cSrc, cOther, cG}
	cSink := &ssa.Call{}
	cSink.Call.Value = sink
	cSink.Call.Args = []ssa.Value{vals[sinkOperand]}
	typed(cSink, types.Type(types.NewTuple()))
	ret := &ssa.Return{}
	hSetBlock(mainFn, blk, []ssa.Instruction{cSrc, cOther, cG, cSink, ret})
	mainFn.Blocks = []*ssa.BasicBlock{blk}
	cfg := &config.Config{}
	s := &AnalyzerState{
		Config:          cfg,
		Logger:          &config.LogGroup{},
		Program:         prog,
		PointerAnalysis: &pointer.Result{Queries: map[ssa.Value]pointer.Pointer{}, IndirectQueries: map[ssa.Value]pointer.Pointer{}},
		Globals:         map[*ssa.Global]*GlobalNode{},
		FlowGraph:       &InterProceduralFlowGraph{Summaries: map[*ssa.Function]*SummaryGraph{}},
	}
	w.State = s
	track := func(*AnalyzerState, ssa.Node) bool { return false }
	w.Main = NewSummaryGraph(s, mainFn, 1, track, nil)
	_, w.Err = RunIntraProcedural(s, w.Main)
	s.FlowGraph.Summaries[mainFn] = w.Main
	link := func(call *ssa.Call, callee *ssa.Function, id uint32, spec *summaries.Summary) *CallNode {
		sg := NewSummaryGraph(s, callee, id, track, nil)
		if spec != nil {
			sg.PopulateGraphFromSummary(*spec, false)
		}
		sg.Constructed = true
		s.FlowGraph.Summaries[callee] = sg
		cn := w.Main.Callees[call][callee]
		if cn != nil {
			cn.CalleeSummary = sg
			sg.Callsites[call] = cn
		}
		return cn
	}
	w.Source = link(cSrc, source, 2, nil)
	link(cOther, other, 3, nil)
	w.G = link(cG, g, 4, &summaries.Summary{Args: args, Rets: rets})
	w.Sink = link(cSink, sink, 5, nil)
	return w
}

// VerifValidatorWorld builds `t0 = source(); c = validate(t0)` followed by a sink call placed according to shape:
//
//	0: if c { sink(t0) }          1: if c { } else { sink(t0) }     2: if c { } ; sink(t0) (after the join)
//	3: sink(t0) before validate   4: for { sink(t0); if !validate(t0) { break } } (single-block loop)
//	5: if !c { sink(t0) }         6: if !c { } else { sink(t0) }
//
// and summarises it with the real intra-procedural analysis.
type VerifValidatorWorld struct {
	State  *AnalyzerState
	Main   *SummaryGraph
	Source *CallNode
	Sink   *CallNode
	Err    error
}

func VerifNewValidatorWorld(shape int) *VerifValidatorWorld {
	w := &VerifValidatorWorld{}
	intT := types.Type(types.Typ[types.Int])
	boolT := types.Type(types.Typ[types.Bool])
	tpkg := types.NewPackage("example.com/p", "p")
	pkg := &ssa.Package{Pkg: tpkg}
	prog := &ssa.Program{Fset: token.NewFileSet()}
	mainFn := &ssa.Function{Signature: hSig(0, 0), Prog: prog, Pkg: pkg}
	verifSetUnexported(mainFn, "name", "main")
	source := verifExternal("source", 0, 1, pkg)
	sink := verifExternal("sink", 1, 0, pkg)
	validate := verifExternal("Validate", 1, 1, pkg)
	validate.Signature = types.NewSignatureType(nil, nil, nil, types.NewTuple(types.NewVar(token.NoPos, tpkg, "x", intT)),
		types.NewTuple(types.NewVar(token.NoPos, tpkg, "", boolT)), false)
	typed := func(i ssa.Instruction, t types.Type) { verifSetUnexported(i, "typ", t) }
	cSrc := &ssa.Call{}
	cSrc.Call.Value = source
	typed(cSrc, intT)
	cVal := &ssa.Call{}
	cVal.Call.Value = validate
	cVal.Call.Args = []ssa.Value{cSrc}
	typed(cVal, boolT)
	cSink := &ssa.Call{}
	cSink.Call.Value = sink
	cSink.Call.Args = []ssa.Value{cSrc}
	typed(cSink, types.Type(types.NewTuple()))
	var cond ssa.Value = cVal
	var notI *ssa.UnOp
	if shape >= 5 {
		notI = &ssa.UnOp{Op: token.NOT, X: cVal}
		typed(notI, boolT)
		cond = notI
	}
	mkBlock := func(idx int) *ssa.BasicBlock { return &ssa.BasicBlock{Index: idx} }
	link := func(from *ssa.BasicBlock, to ...*ssa.BasicBlock) {
		from.Succs = to
		for _, t := range to {
			t.Preds = append(t.Preds, from)
		}
	}
	b0, b1, b2, b3 := mkBlock(0), mkBlock(1), mkBlock(2), mkBlock(3)
	var blocks []*ssa.BasicBlock
	switch shape {
	case 4:
		hSetBlock(mainFn, b0, []ssa.Instruction{cSrc, &ssa.Jump{}})
		hSetBlock(mainFn, b1, []ssa.Instruction{cSink, cVal, &ssa.If{Cond: cVal}})
		hSetBlock(mainFn, b2, []ssa.Instruction{&ssa.Return{}})
		link(b0, b1)
		link(b1, b1, b2)
		blocks = []*ssa.BasicBlock{b0, b1, b2}
	default:
		first := []ssa.Instruction{cSrc}
		if shape == 3 {
			first = append(first, cSink)
		}
		first = append(first, cVal)
		if notI != nil {
			first = append(first, notI)
		}
		first = append(first, &ssa.If{Cond: cond})
		thenI, elseI, joinI := []ssa.Instruction{}, []ssa.Instruction{}, []ssa.Instruction{}
		switch shape {
		case 0, 5:
			thenI = append(thenI, cSink)
		case 1, 6:
			elseI = append(elseI, cSink)
		case 2:
			joinI = append(joinI, cSink)
		}
		hSetBlock(mainFn, b0, first)
		hSetBlock(mainFn, b1, append(thenI, &ssa.Jump{}))
		hSetBlock(mainFn, b2, append(elseI, &ssa.Jump{}))
		hSetBlock(mainFn, b3, append(joinI, &ssa.Return{}))
		link(b0, b1, b2)
		link(b1, b3)
		link(b2, b3)
		blocks = []*ssa.BasicBlock{b0, b1, b2, b3}
	}
	mainFn.Blocks = blocks
	cfg := &config.Config{}
	s := &AnalyzerState{
		Config:          cfg,
		Logger:          &config.LogGroup{},
		Program:         prog,
		PointerAnalysis: &pointer.Result{Queries: map[ssa.Value]pointer.Pointer{}, IndirectQueries: map[ssa.Value]pointer.Pointer{}},
		Globals:         map[*ssa.Global]*GlobalNode{},
		FlowGraph:       &InterProceduralFlowGraph{Summaries: map[*ssa.Function]*SummaryGraph{}},
	}
	w.State = s
	track := func(*AnalyzerState, ssa.Node) bool { return false }
	w.Main = NewSummaryGraph(s, mainFn, 1, track, nil)
	_, w.Err = RunIntraProcedural(s, w.Main)
	s.FlowGraph.Summaries[mainFn] = w.Main
	linkCall := func(call *ssa.Call, callee *ssa.Function, id uint32) *CallNode {
		sg := NewSummaryGraph(s, callee, id, track, nil)
		sg.Constructed = true
		s.FlowGraph.Summaries[callee] = sg
		cn := w.Main.Callees[call][callee]
		if cn != nil {
			cn.CalleeSummary = sg
			sg.Callsites[call] = cn
		}
		return cn
	}
	w.Source = linkCall(cSrc, source, 2)
	linkCall(cVal, validate, 3)
	w.Sink = linkCall(cSink, sink, 4)
	return w
}

// VerifInterWorld: `main: t0 = source(); t1 = other(); r = h(t0, t1); sink(r)` with a user function
// `h(a, b) { v = op(x); return v }` (x one of a, b; op one of four value-typed kinds) that has a body. In eager mode
// h is summarised before the traversal; in on-demand mode its summary exists but is not constructed and the
// visitor must build it when it reaches the call.
type VerifInterWorld struct {
	State  *AnalyzerState
	Source *CallNode
	Sink   *CallNode
	H      *CallNode
	Err    error
}

func VerifNewInterWorld(opKind, operand int, onDemand bool) *VerifInterWorld {
	w := &VerifInterWorld{}
	intT := types.Type(types.Typ[types.Int])
	pkg := &ssa.Package{Pkg: types.NewPackage("example.com/p", "p")}
	prog := &ssa.Program{Fset: token.NewFileSet()}
	typed := func(i ssa.Instruction, t types.Type) { verifSetUnexported(i, "typ", t) }
	// h
	h := verifExternal("h", 2, 1, pkg)
	h.Prog = prog
	body, _ := c08MakeInstr(opKind, h.Params[operand], h.Params[operand])
	typed(body, intT)
	hret := &ssa.Return{Results: []ssa.Value{body.(ssa.Value)}}
	hb := &ssa.BasicBlock{Index: 0}
	hSetBlock(h, hb, []ssa.Instruction{body, hret})
	h.Blocks = []*ssa.BasicBlock{hb}
	// main
	mainFn := &ssa.Function{Signature: hSig(0, 0), Prog: prog, Pkg: pkg}
	verifSetUnexported(mainFn, "name", "main")
	source := verifExternal("source", 0, 1, pkg)
	other := verifExternal("other", 0, 1, pkg)
	sink := verifExternal("sink", 1, 0, pkg)
	cSrc := &ssa.Call{}
	cSrc.Call.Value = source
	typed(cSrc, intT)
	cOther := &ssa.Call{}
	cOther.Call.Value = other
	typed(cOther, intT)
	cH := &ssa.Call{}
	cH.Call.Value = h
	cH.Call.Args = []ssa.Value{cSrc, cOther}
	typed(cH, intT)
	cSink := &ssa.Call{}
	cSink.Call.Value = sink
	cSink.Call.Args = []ssa.Value{cH}
	typed(cSink, types.Type(types.NewTuple()))
	blk := &ssa.BasicBlock{Index: 0}
	hSetBlock(mainFn, blk, []ssa.Instruction{cSrc, cOther, cH, cSink, &ssa.Return{}})
	mainFn.Blocks = []*ssa.BasicBlock{blk}
	cfg := &config.Config{}
	cfg.SummarizeOnDemand = onDemand
	s := &AnalyzerState{
		Config:          cfg,
		Logger:          &config.LogGroup{},
		Program:         prog,
		PointerAnalysis: &pointer.Result{Queries: map[ssa.Value]pointer.Pointer{}, IndirectQueries: map[ssa.Value]pointer.Pointer{}},
		Globals:         map[*ssa.Global]*GlobalNode{},
		FlowGraph:       &InterProceduralFlowGraph{Summaries: map[*ssa.Function]*SummaryGraph{}},
	}
	w.State = s
	track := func(*AnalyzerState, ssa.Node) bool { return false }
	mainSum := NewSummaryGraph(s, mainFn, 1, track, nil)
	_, w.Err = RunIntraProcedural(s, mainSum)
	s.FlowGraph.Summaries[mainFn] = mainSum
	link := func(call *ssa.Call, callee *ssa.Function, id uint32, construct bool) *CallNode {
		sg := NewSummaryGraph(s, callee, id, track, nil)
		if callee.Blocks != nil {
			if construct {
				if _, err := RunIntraProcedural(s, sg); err != nil && w.Err == nil {
					w.Err = err
				}
			}
		} else {
			sg.Constructed = true
		}
		s.FlowGraph.Summaries[callee] = sg
		cn := mainSum.Callees[call][callee]
		if cn != nil {
			cn.CalleeSummary = sg
			sg.Callsites[call] = cn
		}
		return cn
	}
	w.Source = link(cSrc, source, 2, true)
	link(cOther, other, 3, true)
	w.H = link(cH, h, 4, !onDemand)
	w.Sink = link(cSink, sink, 5, true)
	return w
}

// VerifGlobalWorld: `func w() { <G or part of G> = source() }`, `func r() { sink(<G or the same part>) }`,
// `func main() { w(); r() }` with a package-level variable G:
//
//	shape 0: var G int            G = source()         sink(G)
//	shape 1: var G struct{A,B int}  G.A = source()     sink(G.A)
//	shape 2: var G [2]int         G[0] = source()      sink(G[0])
//
// all three functions summarised by the real intra-procedural analysis, globals registered as in the real state.
type VerifGlobalWorld struct {
	State  *AnalyzerState
	Source *CallNode
	Sink   *CallNode
	Err    error
}

func VerifNewGlobalWorld(shape int) *VerifGlobalWorld {
	w := &VerifGlobalWorld{}
	intT := types.Type(types.Typ[types.Int])
	tpkg := types.NewPackage("example.com/p", "p")
	pkg := &ssa.Package{Pkg: tpkg}
	prog := &ssa.Program{Fset: token.NewFileSet()}
	typed := func(i ssa.Instruction, t types.Type) ssa.Value {
		verifSetUnexported(i, "typ", t)
		return i.(ssa.Value)
	}
	var gT types.Type
	switch shape {
	case 0:
		gT = intT
	case 1:
		gT = types.NewStruct([]*types.Var{types.NewField(token.NoPos, tpkg, "A", intT, false), types.NewField(token.NoPos, tpkg, "B", intT, false)}, nil)
	default:
		gT = types.NewArray(intT, 2)
	}
	glob := &ssa.Global{Pkg: pkg}
	verifSetUnexported(glob, "name", "G")
	verifSetUnexported(glob, "typ", types.Type(types.NewPointer(gT)))
	ptrInt := types.Type(types.NewPointer(intT))
	// the address of the written / read part of G
	part := func(instrs *[]ssa.Instruction) ssa.Value {
		switch shape {
		case 1:
			fa := &ssa.FieldAddr{X: glob, Field: 0}
			*instrs = append(*instrs, fa)
			return typed(fa, ptrInt)
		case 2:
			ia := &ssa.IndexAddr{X: glob, Index: ssa.NewConst(constant.MakeInt64(0), intT)}
			*instrs = append(*instrs, ia)
			return typed(ia, ptrInt)
		}
		return glob
	}
	source := verifExternal("source", 0, 1, pkg)
	sink := verifExternal("sink", 1, 0, pkg)
	mkFn := func(name string) *ssa.Function {
		f := &ssa.Function{Signature: hSig(0, 0), Prog: prog, Pkg: pkg}
		verifSetUnexported(f, "name", name)
		return f
	}
	wFn, rFn, mainFn := mkFn("w"), mkFn("r"), mkFn("main")
	// w
	cSrc := &ssa.Call{}
	cSrc.Call.Value = source
	typed(cSrc, intT)
	wInstrs := []ssa.Instruction{cSrc}
	wAddr := part(&wInstrs)
	wInstrs = append(wInstrs, &ssa.Store{Addr: wAddr, Val: cSrc}, &ssa.Return{})
	wb := &ssa.BasicBlock{Index: 0}
	hSetBlock(wFn, wb, wInstrs)
	wFn.Blocks = []*ssa.BasicBlock{wb}
	// r
	var rInstrs []ssa.Instruction
	rAddr := part(&rInstrs)
	ld := &ssa.UnOp{Op: token.MUL, X: rAddr}
	typed(ld, intT)
	cSink := &ssa.Call{}
	cSink.Call.Value = sink
	cSink.Call.Args = []ssa.Value{ld}
	typed(cSink, types.Type(types.NewTuple()))
	rInstrs = append(rInstrs, ld, cSink, &ssa.Return{})
	rb := &ssa.BasicBlock{Index: 0}
	hSetBlock(rFn, rb, rInstrs)
	rFn.Blocks = []*ssa.BasicBlock{rb}
	// main
	cW, cR := &ssa.Call{}, &ssa.Call{}
	cW.Call.Value, cR.Call.Value = wFn, rFn
	typed(cW, types.Type(types.NewTuple()))
	typed(cR, types.Type(types.NewTuple()))
	mb := &ssa.BasicBlock{Index: 0}
	hSetBlock(mainFn, mb, []ssa.Instruction{cW, cR, &ssa.Return{}})
	mainFn.Blocks = []*ssa.BasicBlock{mb}

	cfg := &config.Config{}
	s := &AnalyzerState{
		Config:          cfg,
		Logger:          &config.LogGroup{},
		Program:         prog,
		PointerAnalysis: &pointer.Result{Queries: map[ssa.Value]pointer.Pointer{}, IndirectQueries: map[ssa.Value]pointer.Pointer{}},
		Globals:         map[*ssa.Global]*GlobalNode{glob: newGlobalNode(glob)},
		FlowGraph:       &InterProceduralFlowGraph{Summaries: map[*ssa.Function]*SummaryGraph{}},
	}
	s.reachableFunctions = map[*ssa.Function]bool{wFn: true, rFn: true, mainFn: true}
	w.State = s
	track := func(*AnalyzerState, ssa.Node) bool { return false }
	sums := map[*ssa.Function]*SummaryGraph{}
	for i, f := range []*ssa.Function{mainFn, wFn, rFn} {
		sg := NewSummaryGraph(s, f, uint32(i+1), track, nil)
		if _, err := RunIntraProcedural(s, sg); err != nil && w.Err == nil {
			w.Err = err
		}
		s.FlowGraph.Summaries[f] = sg
		sums[f] = sg
	}
	link := func(caller *ssa.Function, call *ssa.Call, callee *ssa.Function, id uint32) *CallNode {
		sg := sums[callee]
		if sg == nil {
			sg = NewSummaryGraph(s, callee, id, track, nil)
			sg.Constructed = true
			s.FlowGraph.Summaries[callee] = sg
			sums[callee] = sg
		}
		cn := sums[caller].Callees[call][callee]
		if cn != nil {
			cn.CalleeSummary = sg
			sg.Callsites[call] = cn
		}
		return cn
	}
	w.Source = link(wFn, cSrc, source, 10)
	w.Sink = link(rFn, cSink, sink, 11)
	link(mainFn, cW, wFn, 0)
	link(mainFn, cR, rFn, 0)
	return w
}
