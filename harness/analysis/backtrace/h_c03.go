package backtrace

import (
	"github.com/awslabs/ar-go-tools/analysis/config"
	df "github.com/awslabs/ar-go-tools/analysis/dataflow"
)

// C03 kernel: the backward visitor can follow every tuple-indexed edge the forward graph has.
// The harness follows the visitor's own protocol: at the call-argument node every followed in-edge is recorded in
// prevEdgeInfos; at the call node every (return node, recorded EdgeInfo) pair goes through the real addNext.
func c03Run(nEdges int) {
	nRes := verifIntIn("results", 1, 3)
	w := df.VerifNewEdgeWorld(nRes)
	var idxs []int
	for k := 0; k < nEdges; k++ {
		t := verifIntIn("tuple-index", -1, nRes-1)
		idxs = append(idxs, t)
		w.VerifAddCallReturnEdge(t, "")
	}
	v := &Visitor{prevEdgeInfos: map[*df.CallNodeArg][]df.EdgeInfo{}}
	s := w.State
	seen := map[df.KeyType]bool{}
	entry := &df.VisitorNode{NodeWithTrace: df.NodeWithTrace{Node: w.Dst}}
	var stack []*df.VisitorNode
	// step 1: data flows backwards from the argument within the function
	for nextNode, edgeInfo := range w.Dst.In() {
		var added bool
		stack, added = v.addNext(s, stack, entry, df.NodeWithTrace{Node: nextNode}, entry.Status, df.EdgeInfo{}, seen)
		if added {
			v.prevEdgeInfos[w.Dst] = append(v.prevEdgeInfos[w.Dst], edgeInfo)
		}
	}
	verifAssert("call-node-is-visited", len(stack) == 1)
	if len(stack) != 1 {
		return
	}
	cur := stack[0]
	stack = nil
	// step 2: at the call node, flow to the callee's return nodes
	for _, rets := range w.Src.CalleeSummary.Returns {
		for _, ret := range rets {
			next := df.NodeWithTrace{Node: ret, Trace: cur.Trace.Add(w.Src)}
			prevEdges := v.prevEdgeInfos[w.Dst]
			if len(prevEdges) > 0 {
				for _, edgeInfo := range prevEdges {
					stack, _ = v.addNext(s, stack, cur, next, cur.Status, edgeInfo, seen)
				}
			} else {
				stack, _ = v.addNext(s, stack, cur, next, cur.Status, df.EdgeInfo{}, seen)
			}
		}
	}
	verifReach("backward-step-done")
	pushed := func(t int) bool {
		for _, n := range stack {
			if n.Node == df.GraphNode(w.Rets[t]) {
				return true
			}
		}
		return false
	}
	for _, t := range idxs {
		if t >= 0 {
			verifAssert("return-node-of-every-forward-tuple-index-is-visited-backwards", pushed(t))
		} else {
			for r := 0; r < nRes; r++ {
				verifAssert("unindexed-edge-visits-every-return-node", pushed(r))
			}
		}
	}
}

// Harness_C03_tuple_edges: up to two edges from one call to the same argument.
func Harness_C03_tuple_edges() { c03Run(verifIntIn("edges", 1, 2)) }

// Harness_C03_tuple_edges_3_T: three edges (thorough).
func Harness_C03_tuple_edges_3_T() { c03Run(3) }

// Harness_C03_trace_shape: a reported trace is the chain of visited nodes from the origin back to the
// backtrace-point argument (it ends at the entry node), and identical traces are reported once.
func Harness_C03_trace_shape() {
	w := df.VerifNewEdgeWorld(3)
	universe := []df.GraphNode{w.Dst, w.Src, w.Rets[0], w.Rets[1], w.Rets[2]}
	n := verifPick("trace-length", 1, 4)
	var cur *df.VisitorNode
	var seq []df.GraphNode
	for i := 0; i < n; i++ {
		node := universe[0]
		if i > 0 {
			node = universe[verifPick("node", 1, len(universe)-1)]
		}
		cur = &df.VisitorNode{NodeWithTrace: df.NodeWithTrace{Node: node}, Prev: cur, Depth: i}
		seq = append(seq, node)
	}
	tr := findTrace(w.State, cur)
	verifReach("trace-found")
	verifAssert("trace-has-one-entry-per-visited-node", len(tr) == n)
	if len(tr) == n {
		verifAssert("trace-ends-at-the-backtrace-point-argument", tr[n-1].GraphNode == df.GraphNode(w.Dst))
		verifAssert("trace-starts-at-the-origin", tr[0].GraphNode == seq[n-1])
		for i := 0; i < n; i++ {
			verifAssert("trace-is-the-visit-chain-reversed", tr[i].GraphNode == seq[n-1-i])
		}
	}
	v := &Visitor{Traces: map[df.GraphNode][]Trace{}}
	addTrace(v, w.Dst, tr)
	addTrace(v, w.Dst, findTrace(w.State, cur))
	verifAssert("identical-trace-reported-once", len(v.Traces[w.Dst]) == 1)
	if n > 1 {
		addTrace(v, w.Dst, findTrace(w.State, cur.Prev))
		verifAssert("different-trace-is-kept", len(v.Traces[w.Dst]) == 2)
	}
}

// Harness_C03_visit_main: end to end on a hand-built function: the real intra-procedural analysis builds the
// summary of `t0 = srcA(); t1 = srcB(); t2 = t[x]+t[y]; sink(v[a0], v[a1])`, then the real backward Visit runs
// from the sink call; for every argument, every origin call its value derives from must appear in some trace.
func Harness_C03_visit_main() {
	x, y := verifPick("x", 0, 1), verifPick("y", 0, 1)
	a0, a1 := verifPick("arg0", 0, 2), verifPick("arg1", 0, 2)
	// a0 == a1 passes the same SSA value twice to the sink (defect D9, repaired by a fix: commit)
	w := df.VerifNewMainWorld(x, y, a0, a1)
	verifAssert("summary-built", w.Err == nil && w.Sink != nil && w.SrcA != nil && w.SrcB != nil)
	if w.Sink == nil || w.SrcA == nil || w.SrcB == nil {
		return
	}
	v := &Visitor{SlicingSpec: &config.SlicingSpec{}, Traces: map[df.GraphNode][]Trace{}}
	verifTerminatesWithin("backward-visit-terminates", 3000000)
	v.Visit(w.State, df.NodeWithTrace{Node: w.Sink})
	verifTerminated()
	verifReach("visited")
	verifAssert("no-visitor-error", len(v.Errs) == 0)
	origins := []*df.CallNode{w.SrcA, w.SrcB}
	for j, arg := range w.Sink.Args() {
		traces := v.Traces[arg]
		for o := 0; o < 2; o++ {
			if !w.Origins[j][o] {
				continue
			}
			found := false
			for _, tr := range traces {
				for _, tn := range tr {
					if tn.GraphNode == df.GraphNode(origins[o]) {
						found = true
					}
				}
			}
			verifAssert("every-origin-of-the-argument-is-in-some-trace", found)
		}
		for _, tr := range traces {
			verifAssert("trace-ends-at-the-backtrace-point-argument", len(tr) > 0 && tr[len(tr)-1].GraphNode == df.GraphNode(arg))
		}
	}
}
