package backtrace

import (
	"github.com/awslabs/ar-go-tools/analysis/config"
	df "github.com/awslabs/ar-go-tools/analysis/dataflow"
)

// C03 on whole programs: the real backtrace.Analyze pipeline on every program x := source(); q := T(x); sink(q) of
// the generated sequential family (df.VerifBuildDirectFlow): the argument of the backtrace point derives from the
// call source(), so at least one trace reported for the sink call's argument must contain that call, and every trace
// must end at a backtrace-point argument.

func Harness_C03_trace_through_transport() {
	t := verifPick("transport", 0, df.VerifNumTransports-1)
	verifAssume(df.VerifSequentialTransport(t))
	variant := verifPick("variant", 0, 1)
	split := verifPick("split", 0, 1)
	stringData := verifPick("string-data", 0, 1) == 1
	onDemand := false
	if verifTier() > 0 {
		onDemand = verifPick("on-demand", 0, 1) == 1
	}
	w := df.VerifBuildDirectFlow([]int{t}, []int{variant}, split, 0, stringData)
	cfg := config.NewDefault()
	cfg.SummarizeOnDemand = onDemand
	cfg.SlicingProblems = []config.SlicingSpec{{
		BacktracePoints: []config.CodeIdentifier{config.NewCodeIdentifier(config.CodeIdentifier{Package: "main", Method: "^sink$"})},
	}}
	verifOneSchedule(true) // the analyzer's own worker goroutines: one schedule (their schedules are the subject of C06/C20)
	verifTerminatesWithin("backtrace-analysis-terminates", 150000000)
	res, _ := Analyze(config.NewLogGroup(cfg), cfg, w.Prog, nil)
	verifTerminated()
	verifReach("analysed")
	found := false
	entries := 0
	for entry, traces := range res.Traces {
		if df.Instr(entry) != w.Sink {
			continue
		}
		entries++
		for _, tr := range traces {
			verifAssert("trace-ends-at-the-backtrace-point-argument", len(tr) > 0 && tr[len(tr)-1].GraphNode == entry)
			for _, tn := range tr {
				if tn.GraphNode != nil && df.Instr(tn.GraphNode) == w.Source {
					found = true
				}
			}
		}
	}
	verifAssert("backtrace-point-argument-has-traces", entries > 0)
	verifAssert("some-trace-contains-the-originating-call", found)
}

// chains of two sequential transports (thorough tier)
func Harness_C03_trace_through_transport_pairs_T() {
	t1 := verifPick("t1", 0, df.VerifNumTransports-1)
	t2 := verifPick("t2", 0, df.VerifNumTransports-1)
	verifAssume(df.VerifSequentialTransport(t1) && df.VerifSequentialTransport(t2))
	split := verifPick("split", 1, 2)
	stringData := verifPick("string-data", 0, 1) == 1
	w := df.VerifBuildDirectFlow([]int{t1, t2}, []int{0, 1}, split, 0, stringData)
	cfg := config.NewDefault()
	cfg.SlicingProblems = []config.SlicingSpec{{
		BacktracePoints: []config.CodeIdentifier{config.NewCodeIdentifier(config.CodeIdentifier{Package: "main", Method: "^sink$"})},
	}}
	verifOneSchedule(true)
	verifTerminatesWithin("backtrace-analysis-terminates", 150000000)
	res, _ := Analyze(config.NewLogGroup(cfg), cfg, w.Prog, nil)
	verifTerminated()
	verifReach("analysed")
	found := false
	for entry, traces := range res.Traces {
		if df.Instr(entry) != w.Sink {
			continue
		}
		for _, tr := range traces {
			for _, tn := range tr {
				if tn.GraphNode != nil && df.Instr(tn.GraphNode) == w.Source {
					found = true
				}
			}
		}
	}
	verifAssert("some-trace-contains-the-originating-call", found)
}
