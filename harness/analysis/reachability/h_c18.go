package reachability

import (
	"go/token"
	"go/types"

	"github.com/awslabs/ar-go-tools/analysis/config"
	"github.com/awslabs/ar-go-tools/analysis/dataflow"
	"golang.org/x/tools/go/ssa"
)

// C18 kernel: the reachability fixpoint is conservative on skeleton programs: every function that an instruction of
// a reachable function refers to - as the callee of a call / go / defer, as an argument of one, as the function of
// a closure, or as any other operand - is reported reachable; the reported set only contains program functions and
// shrinks when main / init are excluded as roots.

const (
	c18Call = iota
	c18CallArg
	c18Defer
	c18DeferArg
	c18Go
	c18GoArg
	c18Closure
	c18Store
	c18Return
	c18NumForms
)

func c18Fn(name string, pkg *ssa.Package) *ssa.Function {
	fn := &ssa.Function{Pkg: pkg, Signature: types.NewSignatureType(nil, nil, nil, nil, nil, false)}
	verifSetUnexported(fn, "name", name)
	return fn
}

// c18Instr builds one instruction of caller that refers to target in the given syntactic form (helper is the
// callee when target is passed as an argument).
func c18Instr(form int, target, helper *ssa.Function) ssa.Instruction {
	switch form {
	case c18Call:
		c := &ssa.Call{}
		c.Call.Value = target
		return c
	case c18CallArg:
		c := &ssa.Call{}
		c.Call.Value = helper
		c.Call.Args = []ssa.Value{target}
		return c
	case c18Defer:
		d := &ssa.Defer{}
		d.Call.Value = target
		return d
	case c18DeferArg:
		d := &ssa.Defer{}
		d.Call.Value = helper
		d.Call.Args = []ssa.Value{target}
		return d
	case c18Go:
		g := &ssa.Go{}
		g.Call.Value = target
		return g
	case c18GoArg:
		g := &ssa.Go{}
		g.Call.Value = helper
		g.Call.Args = []ssa.Value{target}
		return g
	case c18Closure:
		return &ssa.MakeClosure{Fn: target}
	case c18Store:
		return &ssa.Store{Addr: &ssa.Alloc{}, Val: target}
	default:
		return &ssa.Return{Results: []ssa.Value{target}}
	}
}

// Harness_C18_callees: findCallees reports every function an instruction refers to.
func Harness_C18_callees() {
	pkg := &ssa.Package{Pkg: types.NewPackage("main", "main")}
	caller := c18Fn("main", pkg)
	target := c18Fn("target", pkg)
	helper := c18Fn("helper", pkg)
	form := verifPick("form", 0, c18NumForms-1)
	ins := c18Instr(form, target, helper)
	caller.Blocks = []*ssa.BasicBlock{{Index: 0, Instrs: []ssa.Instruction{ins, &ssa.Return{}}}}
	found := map[*ssa.Function]bool{}
	findCallees(nil, caller, func(f *ssa.Function) { found[f] = true })
	verifReach("callees-found")
	// oracle: every *ssa.Function among the operands of the instruction
	var buf [8]*ssa.Value
	for _, op := range ins.Operands(buf[:0]) {
		if fn, ok := (*op).(*ssa.Function); ok {
			verifAssert("every-function-referred-to-by-an-instruction-is-a-callee", found[fn])
		}
	}
	verifAssert("target-is-reachable", found[target])
}

// Harness_C18_fixpoint: FindReachable on a three-function program: closure of the reference relation from the
// roots, contained in the program, monotone in the choice of roots.
func Harness_C18_fixpoint() {
	tpkg := types.NewPackage("main", "main")
	pkg := &ssa.Package{Pkg: tpkg, Members: map[string]ssa.Member{}}
	prog := &ssa.Program{Fset: token.NewFileSet()}
	verifSetUnexported(prog, "packages", map[*types.Package]*ssa.Package{tpkg: pkg})
	pkg.Prog = prog
	names := []string{"main", "init", "a", "b"}
	// quick tier: four representative forms; thorough: all nine
	forms := []int{c18Call, c18GoArg, c18DeferArg, c18Closure}
	if verifTier() > 0 {
		forms = []int{c18Call, c18CallArg, c18Defer, c18DeferArg, c18Go, c18GoArg, c18Closure, c18Store, c18Return}
	}
	var fns []*ssa.Function
	for _, n := range names {
		f := c18Fn(n, pkg)
		f.Prog = prog
		fns = append(fns, f)
		pkg.Members[n] = f
	}
	// each function refers to at most one other function, in a symbolic form
	refs := make([]int, len(fns))
	for i, f := range fns {
		refs[i] = -1
		if i < 3 { // b (the helper callee) refers to nothing
			refs[i] = verifPick("refers-to", -1, len(fns)-2)
		}
		instrs := []ssa.Instruction{}
		if refs[i] >= 0 {
			instrs = append(instrs, c18Instr(forms[verifPick("form", 0, len(forms)-1)], fns[refs[i]], fns[3]))
		}
		instrs = append(instrs, &ssa.Return{})
		f.Blocks = []*ssa.BasicBlock{{Index: 0, Instrs: instrs}}
	}
	state := &dataflow.AnalyzerState{Program: prog, Logger: &config.LogGroup{}, Config: &config.Config{}}
	all := FindReachable(state, false, false, nil)
	noMain := FindReachable(state, true, false, nil)
	noInit := FindReachable(state, false, true, nil)
	verifReach("reachable-computed")
	verifAssert("entry-points-are-reachable", all[fns[0]] && all[fns[1]])
	for i, f := range fns {
		if all[f] && refs[i] >= 0 {
			verifAssert("reachable-set-closed-under-references", all[fns[refs[i]]])
		}
		verifAssert("excluding-main-shrinks-the-set", !noMain[f] || all[f])
		verifAssert("excluding-init-shrinks-the-set", !noInit[f] || all[f])
	}
	for f := range all {
		known := false
		for _, g := range fns {
			if f == g {
				known = true
			}
		}
		verifAssert("reachable-functions-are-program-functions", known)
	}
}

// Harness_C18_generated_programs: FindReachable on the typed generated program family shared with C11/C12
// (dataflow.VerifBuildPtrProgram): every function that runs in the program's execution - callees of static calls,
// function values loaded from memory, closures, interface method implementations (exported and unexported methods,
// with a function value passed as an argument of a result-less interface call), go and defer callees, functions called
// inside those - must be reported reachable when main and init are the roots; the reported set stays inside the
// program's functions.
func Harness_C18_generated_programs() {
	t1 := verifPick("t1", 0, dataflow.VerifNumTransports-1)
	variant := verifPick("variant", 0, 1)
	split := verifPick("split", 0, 1)
	w := dataflow.VerifBuildPtrProgram([]int{t1}, []int{variant}, 0, split)
	state := &dataflow.AnalyzerState{Program: w.Prog, Logger: &config.LogGroup{}, Config: &config.Config{}}
	all := FindReachable(state, false, false, nil)
	verifReach("reachable-computed")
	for f := range w.Executed {
		verifAssert("function-executed-at-run-time-is-reported-reachable", all[f])
	}
	for f := range all {
		verifAssert("reported-functions-belong-to-the-program", w.Funcs[f])
	}
}
