package escape

import (
	"go/token"
	"go/types"

	"github.com/awslabs/ar-go-tools/analysis/config"
	"github.com/awslabs/ar-go-tools/analysis/dataflow"
	"golang.org/x/tools/go/ssa"
)

// C14 / C15 end to end: the real per-function escape analysis (newFunctionAnalysisState + Resummarize +
// computeInstructionLocality, i.e. the real transfer functions and block worklist) on hand-built typed functions
// over `type T struct{ next *T }`: a store through a pointer is classified local only if the object it writes to
// cannot be reached from another goroutine at that point; and the block fixpoint is really reached.

type e2eWorld struct {
	fn    *ssa.Function
	prog  *ProgramAnalysisState
	tT    *types.Named
	ptrT  types.Type
	pptrT types.Type
	pkg   *ssa.Package
}

func e2eNewWorld() *e2eWorld {
	w := &e2eWorld{}
	tpkg := types.NewPackage("example.com/p", "p")
	w.pkg = &ssa.Package{Pkg: tpkg}
	w.tT = types.NewNamed(types.NewTypeName(token.NoPos, tpkg, "T", nil), nil, nil)
	w.ptrT = types.NewPointer(w.tT)
	w.tT.SetUnderlying(types.NewStruct([]*types.Var{types.NewField(token.NoPos, tpkg, "next", w.ptrT, false)}, nil))
	w.pptrT = types.NewPointer(w.ptrT)
	cfg := &config.Config{}
	cfg.EscapeConfig = config.NewEscapeConfig()
	w.prog = &ProgramAnalysisState{
		summaries:   map[*ssa.Function]*functionAnalysisState{},
		globalNodes: newGlobalNodeGroup(),
		logger:      &config.LogGroup{},
		state:       &dataflow.AnalyzerState{Config: cfg, Logger: &config.LogGroup{}},
	}
	return w
}

func (w *e2eWorld) newFn(name string, nParams int) *ssa.Function {
	var vars []*types.Var
	for i := 0; i < nParams; i++ {
		vars = append(vars, types.NewVar(token.NoPos, w.pkg.Pkg, "p", w.ptrT))
	}
	fn := &ssa.Function{Pkg: w.pkg, Prog: &ssa.Program{Fset: token.NewFileSet()},
		Signature: types.NewSignatureType(nil, nil, nil, types.NewTuple(vars...), types.NewTuple(types.NewVar(token.NoPos, w.pkg.Pkg, "", w.ptrT)), false)}
	verifSetUnexported(fn, "name", name)
	for i := 0; i < nParams; i++ {
		p := &ssa.Parameter{}
		verifSetUnexported(p, "name", "p")
		verifSetUnexported(p, "typ", w.ptrT)
		verifSetUnexported(p, "object", vars[i])
		verifSetUnexported(p, "parent", fn)
		fn.Params = append(fn.Params, p)
	}
	return fn
}

func (w *e2eWorld) typed(i ssa.Instruction, t types.Type) ssa.Value {
	verifSetUnexported(i, "typ", t)
	return i.(ssa.Value)
}

func e2eSetBlock(fn *ssa.Function, b *ssa.BasicBlock, instrs []ssa.Instruction) {
	b.Instrs = instrs
	verifSetUnexported(b, "parent", fn)
	for _, i := range instrs {
		verifSetUnexported(i, "block", b)
	}
}

// Harness_C14_store_locality: where does `x.next = x` write, relative to the point where x becomes shared?
func Harness_C14_store_locality() {
	w := e2eNewWorld()
	fn := w.newFn("f", 1)
	p := fn.Params[0]
	shape := verifPick("shape", 0, 5)
	g := w.newFn("g", 1) // external function launched as a goroutine
	glob := &ssa.Global{Pkg: w.pkg}
	verifSetUnexported(glob, "name", "G")
	verifSetUnexported(glob, "typ", w.pptrT)
	alloc := &ssa.Alloc{Heap: true}
	a := w.typed(alloc, w.ptrT)
	var target ssa.Value = a
	if shape == 2 {
		target = p
	}
	fa := &ssa.FieldAddr{X: target, Field: 0}
	w.typed(fa, w.pptrT)
	st := &ssa.Store{Addr: fa, Val: target}
	goI := &ssa.Go{}
	goI.Call.Value = g
	goI.Call.Args = []ssa.Value{a}
	leakG := &ssa.Store{Addr: glob, Val: a}
	ret := &ssa.Return{Results: []ssa.Value{a}}
	var instrs []ssa.Instruction
	expectLocal := false
	switch shape {
	case 0: // never shared
		instrs = []ssa.Instruction{alloc, fa, st, ret}
		expectLocal = true
	case 1: // shared with a goroutine before the store
		instrs = []ssa.Instruction{alloc, goI, fa, st, ret}
	case 2: // store through the parameter: the caller may share it
		instrs = []ssa.Instruction{alloc, fa, st, ret}
	case 3: // published through a global before the store
		instrs = []ssa.Instruction{alloc, leakG, fa, st, ret}
	case 4: // only returned
		instrs = []ssa.Instruction{alloc, fa, st, ret}
		expectLocal = true
	default: // shared with a goroutine only after the store
		instrs = []ssa.Instruction{alloc, fa, st, goI, ret}
		expectLocal = true
	}
	b0 := &ssa.BasicBlock{Index: 0}
	e2eSetBlock(fn, b0, instrs)
	fn.Blocks = []*ssa.BasicBlock{b0}
	ea := newFunctionAnalysisState(fn, w.prog, config.EscapeBehaviorSummarize)
	verifTerminatesWithin("escape-summary-terminates", 4000000)
	ea.Resummarize()
	locality, _ := computeInstructionLocality(ea, ea.initialGraph)
	verifTerminated()
	verifReach("locality-computed")
	_, known := locality[st]
	verifAssert("store-has-a-locality-verdict", known)
	isLocal := locality[st] == nil
	if expectLocal {
		verifAssert("store-to-unshared-object-is-local", isLocal)
	} else {
		verifAssert("store-to-shared-object-is-not-local", !isLocal)
	}
}

// Harness_C15_block_fixpoint: the per-function block worklist really reaches a fixpoint: after the summary has
// been computed, re-processing any block changes nothing - on a loop that shifts pointers between the fields of a
// struct (`r.a = r.b; r.b = r.c`, two passes needed), as a single self-looping block or as a two-block loop, with
// the two statements in either order.
func Harness_C15_block_fixpoint() {
	w := e2eNewWorld()
	tpkg := w.pkg.Pkg
	rT := types.NewNamed(types.NewTypeName(token.NoPos, tpkg, "R", nil), types.NewStruct([]*types.Var{
		types.NewField(token.NoPos, tpkg, "a", w.ptrT, false),
		types.NewField(token.NoPos, tpkg, "b", w.ptrT, false),
		types.NewField(token.NoPos, tpkg, "c", w.ptrT, false)}, nil), nil)
	ptrR := types.NewPointer(rT)
	rv := types.NewVar(token.NoPos, tpkg, "r", ptrR)
	fn := &ssa.Function{Pkg: w.pkg, Prog: &ssa.Program{Fset: token.NewFileSet()},
		Signature: types.NewSignatureType(nil, nil, nil, types.NewTuple(rv), nil, false)}
	verifSetUnexported(fn, "name", "shift")
	r := &ssa.Parameter{}
	verifSetUnexported(r, "name", "r")
	verifSetUnexported(r, "typ", types.Type(ptrR))
	verifSetUnexported(r, "object", rv)
	verifSetUnexported(r, "parent", fn)
	fn.Params = []*ssa.Parameter{r}
	assign := func(dst, src int) []ssa.Instruction { // r.dst = r.src
		fs := &ssa.FieldAddr{X: r, Field: src}
		w.typed(fs, w.pptrT)
		ld := &ssa.UnOp{Op: token.MUL, X: fs}
		w.typed(ld, w.ptrT)
		fd := &ssa.FieldAddr{X: r, Field: dst}
		w.typed(fd, w.pptrT)
		return []ssa.Instruction{fs, ld, fd, &ssa.Store{Addr: fd, Val: ld}}
	}
	first, second := assign(0, 1), assign(1, 2)
	if verifBool("statements-swapped") {
		first, second = second, first
	}
	cond := &ssa.Parameter{}
	verifSetUnexported(cond, "name", "c")
	verifSetUnexported(cond, "typ", types.Type(types.Typ[types.Bool]))
	b0, b1, b2, b3 := &ssa.BasicBlock{Index: 0}, &ssa.BasicBlock{Index: 1}, &ssa.BasicBlock{Index: 2}, &ssa.BasicBlock{Index: 3}
	link := func(from *ssa.BasicBlock, to ...*ssa.BasicBlock) {
		from.Succs = to
		for _, t := range to {
			t.Preds = append(t.Preds, from)
		}
	}
	selfLoop := verifBool("single-block-loop")
	e2eSetBlock(fn, b0, []ssa.Instruction{&ssa.Jump{}})
	if selfLoop {
		e2eSetBlock(fn, b1, append(append(append([]ssa.Instruction{}, first...), second...), &ssa.If{Cond: cond}))
		e2eSetBlock(fn, b2, []ssa.Instruction{&ssa.Return{}})
		link(b0, b1)
		link(b1, b1, b2)
		fn.Blocks = []*ssa.BasicBlock{b0, b1, b2}
	} else {
		e2eSetBlock(fn, b1, append(append([]ssa.Instruction{}, first...), &ssa.Jump{}))
		e2eSetBlock(fn, b2, append(append([]ssa.Instruction{}, second...), &ssa.If{Cond: cond}))
		b3.Index = 3
		e2eSetBlock(fn, b3, []ssa.Instruction{&ssa.Return{}})
		link(b0, b1)
		link(b1, b2)
		link(b2, b1, b3)
		fn.Blocks = []*ssa.BasicBlock{b0, b1, b2, b3}
	}
	ea := newFunctionAnalysisState(fn, w.prog, config.EscapeBehaviorSummarize)
	verifTerminatesWithin("escape-summary-terminates", 6000000)
	ea.Resummarize()
	verifTerminated()
	verifReach("summarised")
	verifAssert("worklist-empty-after-summary", len(ea.worklist) == 0)
	for _, b := range fn.Blocks {
		verifAssert("block-fixpoint-reached", !ea.ProcessBlock(b))
	}
	verifAssert("summary-graph-present", ea.finalGraph != nil)
}
