package escape

import (
	"github.com/awslabs/ar-go-tools/analysis/config"
	"github.com/awslabs/ar-go-tools/analysis/dataflow"
	"golang.org/x/tools/go/ssa"
)

// C14 on whole programs: the real pointer analysis, the real bottom-up EscapeAnalysis (all summaries) and the real
// ComputeInstructionLocalityAndCallsites / call-site context resolution on every program of the generated
// concurrent family (dataflow.VerifBuildShareProgram): an object's address travels through transports, is made
// reachable from a goroutine that writes obj.next, and is then accessed by main (directly or inside a callee).
// Every such access - and the goroutine's own write - touches memory reachable from two goroutines, so none of them
// may be classified local in the contexts the property names (arbitrary context for main and goroutine entries,
// call-site context for main's callee).

func c14Analyze(w *dataflow.VerifShareWorld) (*escapeAnalysisImpl, bool) {
	cfg := config.NewDefault()
	cfg.EscapeConfig = config.NewEscapeConfig()
	verifTerminatesWithin("pointer-and-escape-analysis-terminate", 80000000)
	res, err := dataflow.DoPointerAnalysis(cfg, w.Prog, func(*ssa.Function) bool { return true }, w.Funcs)
	if err != nil || res == nil || res.CallGraph == nil {
		verifTerminated()
		verifAssert("pointer-analysis-succeeds", false)
		return nil, false
	}
	state := &dataflow.AnalyzerState{Config: cfg, Logger: config.NewLogGroup(cfg), PointerAnalysis: res, Program: w.Prog}
	eaState, err := EscapeAnalysis(state, res.CallGraph.Root)
	verifTerminated()
	verifReach("escape-analysis-done")
	verifAssert("escape-analysis-succeeds", err == nil && eaState != nil)
	if err != nil || eaState == nil {
		return nil, false
	}
	return &escapeAnalysisImpl{*eaState}, true
}

func c14CheckRacy(e *escapeAnalysisImpl, w *dataflow.VerifShareWorld, kf string, inKnownRegion bool) {
	verifAssert("main-is-summarized", e.IsSummarized(w.Main))
	if !e.IsSummarized(w.Main) {
		return
	}
	mainLoc, mainCalls := e.ComputeInstructionLocalityAndCallsites(w.Main, e.ComputeArbitraryContext(w.Main))
	for _, a := range w.Racy {
		var loc map[ssa.Instruction]*dataflow.EscapeRationale
		switch {
		case a.Fn == w.Main:
			loc = mainLoc
		case a.Via != nil:
			info, ok := mainCalls[a.Via]
			verifAssert("call-site-of-main-has-context-information", ok)
			if !ok {
				continue
			}
			verifAssert("callee-is-summarized", e.IsSummarized(a.Fn))
			ctx := info.Resolve(a.Fn)
			loc, _ = e.ComputeInstructionLocalityAndCallsites(a.Fn, ctx)
		default:
			verifAssert("goroutine-entry-is-summarized", e.IsSummarized(a.Fn))
			if !e.IsSummarized(a.Fn) {
				continue
			}
			loc, _ = e.ComputeInstructionLocalityAndCallsites(a.Fn, e.ComputeArbitraryContext(a.Fn))
		}
		rationale, known := loc[a.Instr]
		verifAssert("memory-access-has-a-locality-verdict", known)
		if known {
			// kf names the recorded finding whose region (if any) this program lies in
			verifAssertKnown("access-to-memory-shared-with-a-goroutine-is-not-local", kf, inKnownRegion, rationale != nil)
		}
	}
}

// every leak form x every access form, object address used directly
func Harness_C14_leak_forms() {
	leak := verifPick("leak", 0, 9)
	access := verifPick("access", 0, 4)
	w := dataflow.VerifBuildShareProgram(nil, nil, leak, 0, access, 0)
	if e, ok := c14Analyze(w); ok {
		c14CheckRacy(e, w, "", false)
	}
}

// the address travels through one transport between the allocation and the leaked / accessed values
func Harness_C14_leak_through_transport() {
	t := verifPick("transport", 0, dataflow.VerifNumTransports-1)
	variant := verifPick("variant", 0, 1)
	leak := verifPick("leak", 0, 1) * 5 // go statement in main / inside a summarized callee
	leakAt := verifPick("leakAt", 0, 1)
	accessAt := 1 - leakAt
	if verifTier() > 0 {
		accessAt = verifPick("accessAt", 0, 1)
	}
	w := dataflow.VerifBuildShareProgram([]int{t}, []int{variant}, leak, leakAt, 0, accessAt)
	if e, ok := c14Analyze(w); ok {
		// transport 22 reads a cell that is written by a deferred call: same root cause as the recorded finding
		c14CheckRacy(e, w, "", false)
	}
}

// control: without a leak the analysis is able to classify main's store as local (vacuity witness for the
// assertions above: "not local" is not the only verdict the analysis produces on this family)
func Harness_C14_unshared_control() {
	w := dataflow.VerifBuildShareProgram(nil, nil, -1, 0, 0, 0)
	if e, ok := c14Analyze(w); ok {
		loc, _ := e.ComputeInstructionLocalityAndCallsites(w.Main, e.ComputeArbitraryContext(w.Main))
		for _, a := range w.Racy {
			if a.Fn == w.Main {
				if r, known := loc[a.Instr]; known && r == nil {
					verifReach("unshared-store-is-local")
				}
			}
		}
	}
	verifReach("control-done")
}

// two transports between the allocation and the accessed value (thorough tier): the object itself is handed to a
// goroutine, the access goes through the end of the chain, or the other way round
func Harness_C14_leak_through_transport_pairs_T() {
	n := dataflow.VerifNumTransports
	t1 := verifPick("t1", 0, n-1)
	t2 := verifPick("t2", 0, n-1)
	leakAt := verifPick("leakAt", 0, 1) * 2
	w := dataflow.VerifBuildShareProgram([]int{t1, t2}, []int{1, 0}, 0, leakAt, 0, 2-leakAt)
	if e, ok := c14Analyze(w); ok {
		c14CheckRacy(e, w, "", false)
	}
}
