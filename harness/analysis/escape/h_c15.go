package escape

// C15 / C14: escape graphs built by the real API over a small node universe.
// Representation invariant (stated in DESIGN §3 C15): a status change is preceded by AddNode, exactly as every call
// site that can reach an absent node does (Merge, initial-graph construction).

var c15Kinds = []nodeKind{KindAlloc, KindParam, KindGlobal}

func c15Nodes(n int) []*Node {
	nodes := make([]*Node, n)
	for i := range nodes {
		nodes[i] = &Node{kind: c15Kinds[verifPick("node-kind", 0, 2)], number: i, debugInfo: "n"}
	}
	return nodes
}

// c15Op applies one symbolic API operation to g.
var c15FlagCap = 0
var c15SymbolicStatus = false

func c15MaxFlag() int {
	if c15FlagCap > 0 {
		return c15FlagCap
	}
	if verifTier() > 0 {
		return 4
	}
	return 3 // quick tier: internal / external edges; thorough adds the subnode flag (value 4) on its own
}

func c15Op(g *EscapeGraph, nodes []*Node) {
	op := verifPick("op", 0, 1)
	a := nodes[verifPick("a", 0, len(nodes)-1)]
	switch op {
	case 0:
		b := nodes[verifPick("b", 0, len(nodes)-1)]
		f := edgeFlags(verifPick("flags", 1, c15MaxFlag()))
		g.AddEdge(a, b, f)
	case 1:
		// the status is a genuinely symbolic value unless the harness asks for concrete enumeration
		var s EscapeStatus
		if c15SymbolicStatus {
			s = EscapeStatus(verifIntIn("status", 0, 2))
		} else {
			s = EscapeStatus(verifPick("status", 0, 2))
		}
		g.AddNode(a)
		g.MergeNodeStatus(a, s, nil)
	}
}

func c15Build(nodes []*Node, ops int) *EscapeGraph {
	g := NewEmptyEscapeGraph(nil)
	for i := 0; i < ops; i++ {
		c15Op(g, nodes)
	}
	return g
}

// c15Invariant: the closure invariant locality rests on (C14): status never decreases along an edge, is at least
// the intrinsic status, and status/edges have the same key set.
func c15Invariant(g *EscapeGraph, nodes []*Node, id string) {
	for _, a := range nodes {
		sa, hasStatus := g.status[a]
		_, hasEdges := g.edges[a]
		verifAssert(id+"status-and-edges-have-same-nodes", hasStatus == hasEdges)
		if hasStatus {
			verifAssert(id+"status-at-least-intrinsic", sa >= a.IntrinsicEscape())
			verifAssert(id+"status-in-range", sa <= Leaked)
		}
		for _, b := range nodes {
			if fl, ok := g.edges[a][b]; ok {
				sb, okb := g.status[b]
				verifAssert(id+"edge-target-present", okb)
				verifAssert(id+"pointee-status-at-least-pointer-status", sb >= sa)
				verifAssert(id+"edge-flags-nonzero-and-valid", verifAnd(fl != 0, fl <= EdgeAll))
			}
		}
	}
}

func c15LessEq(g, h *EscapeGraph) bool {
	le, _ := g.LessEqual(h)
	return le
}

func c15Bounds() (n, opsG, opsH int) {
	if verifTier() > 0 {
		return 2, 2, 1
	}
	return 2, 1, 1
}

// Harness_C15_merge_laws: idempotence, commutativity, upper bound of Merge; Clone independence.
func Harness_C15_merge_laws() {
	c15SymbolicStatus = true
	n, opsG, opsH := c15Bounds()
	nodes := c15Nodes(n)
	g := c15Build(nodes, opsG)
	h := c15Build(nodes, opsH)
	c15Invariant(g, nodes, "g:")
	verifReach("built")
	// idempotent
	gg := g.Clone()
	verifAssert("clone-matches", gg.Matches(g))
	gg.Merge(g)
	verifAssert("merge-idempotent", gg.Matches(g))
	// commutative
	gh := g.Clone()
	gh.Merge(h)
	hg := h.Clone()
	hg.Merge(g)
	verifAssert("merge-commutative", gh.Matches(hg))
	// upper bound
	verifAssert("merge-upper-bound-left", c15LessEq(g, gh))
	verifAssert("merge-upper-bound-right", c15LessEq(h, gh))
	c15Invariant(gh, nodes, "merged:")
	// order is reflexive; antisymmetric w.r.t. Matches
	verifAssert("lesseq-reflexive", c15LessEq(g, g))
	if c15LessEq(g, h) && c15LessEq(h, g) {
		verifAssert("lesseq-antisymmetric", g.Matches(h))
	}
	// clone is independent
	before := g.Clone()
	gh.AddEdge(nodes[0], nodes[len(nodes)-1], EdgeInternal)
	gh.MergeNodeStatus(nodes[0], Leaked, nil)
	verifAssert("merge-and-clone-do-not-alias-operand", g.Matches(before))
}

// Harness_C15_monotone: operations are extensive, and a larger input graph never yields a smaller output graph for
// AddEdge / MergeNodeStatus / Merge.
func Harness_C15_monotone() {
	n, _, _ := c15Bounds()
	opsG := 1
	nodes := c15Nodes(n)
	if verifTier() == 0 {
		c15FlagCap = 1 // quick tier: the two graphs are built with internal edges only; the checked operation is general
	}
	g := c15Build(nodes, opsG)
	big := g.Clone()
	c15Op(big, nodes)
	c15FlagCap = 0
	verifAssert("operations-are-extensive", c15LessEq(g, big))
	op := verifPick("monotone-op", 0, 2)
	a := nodes[verifPick("ma", 0, n-1)]
	switch op {
	case 0:
		b := nodes[verifPick("mb", 0, n-1)]
		f := edgeFlags(verifPick("mflags", 1, c15MaxFlag()))
		g.AddEdge(a, b, f)
		big.AddEdge(a, b, f)
	case 1:
		s := EscapeStatus(verifPick("mstatus", 0, 2))
		g.AddNode(a)
		big.AddNode(a)
		g.MergeNodeStatus(a, s, nil)
		big.MergeNodeStatus(a, s, nil)
	case 2:
		k := c15Build(nodes, 1)
		g.Merge(k)
		big.Merge(k)
	}
	verifReach("applied")
	verifAssert("operation-is-monotone", c15LessEq(g, big))
	c15Invariant(g, nodes, "after-op:")
}

// Harness_C15_least_assoc_T: least upper bound and associativity on three graphs (thorough).
func Harness_C15_least_assoc_T() {
	nodes := c15Nodes(2)
	g := c15Build(nodes, 2)
	h := c15Build(nodes, 1)
	k := c15Build(nodes, 1)
	gh := g.Clone()
	gh.Merge(h)
	ghk := gh.Clone()
	ghk.Merge(k)
	hk := h.Clone()
	hk.Merge(k)
	g_hk := g.Clone()
	g_hk.Merge(hk)
	verifReach("merged3")
	verifAssert("merge-associative", ghk.Matches(g_hk))
	// least: any upper bound u of g and h is above Merge(g,h); take u = an arbitrary graph merged with both
	u := k.Clone()
	u.Merge(g)
	u.Merge(h)
	verifAssert("merge-is-least-upper-bound", c15LessEq(gh, u))
	if c15LessEq(g, h) && c15LessEq(h, k) {
		verifAssert("lesseq-transitive", c15LessEq(g, k))
	}
}

// Harness_C14_locality_invariant: derefsAreLocal answers nil exactly when every pointee is Local, and the closure
// invariant holds after every operation sequence.
func Harness_C14_locality_invariant() {
	c15SymbolicStatus = true
	n, ops := 2, 2
	if verifTier() > 0 {
		ops = 3
	}
	nodes := c15Nodes(n)
	g := c15Build(nodes, ops)
	c15Invariant(g, nodes, "")
	p := nodes[verifPick("ptr", 0, n-1)]
	allLocal := true
	for _, b := range nodes {
		if _, ok := g.edges[p][b]; ok {
			if g.status[b] != Local {
				allLocal = false
			}
		}
	}
	verifReach("queried")
	verifAssert("derefs-local-iff-every-pointee-local", (derefsAreLocal(g, p) == nil) == allLocal)
	// anything pointed to by a leaked or escaped object is not local
	if st, ok := g.status[p]; ok && st != Local {
		for _, b := range nodes {
			if _, ok := g.edges[p][b]; ok {
				verifAssert("pointee-of-shared-object-is-not-local", g.status[b] != Local)
			}
		}
	}
	// CloneReachable keeps everything reachable and nothing gets a larger status
	cr := g.CloneReachable([]*Node{p})
	verifAssert("clone-reachable-below-original", c15LessEq(cr, g))
	for _, b := range nodes {
		if _, ok := g.edges[p][b]; ok {
			_, kept := cr.status[b]
			verifAssert("clone-reachable-keeps-pointees", kept)
		}
	}
}

// Harness_C14_closure_chain: three nodes, three operations (internal edges only, symbolic statuses): long enough for
// a status to propagate through two edges.
func Harness_C14_closure_chain() {
	c15SymbolicStatus = true
	c15FlagCap = 1
	nodes := []*Node{{kind: KindAlloc, number: 0}, {kind: KindAlloc, number: 1}, {kind: KindAlloc, number: 2}}
	g := c15Build(nodes, 3)
	c15FlagCap = 0
	verifReach("chain-built")
	c15Invariant(g, nodes, "chain:")
}
