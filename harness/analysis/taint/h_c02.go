package taint

import (
	"go/token"
	"go/types"

	"github.com/awslabs/ar-go-tools/analysis/config"
	df "github.com/awslabs/ar-go-tools/analysis/dataflow"
	"golang.org/x/tools/go/ssa"
)

// C02 kernel: isValidatorCondition answers true for (condition, polarity) only if taking the branch with that
// polarity implies that the validator returned true / a nil error. The condition is a small expression tree over
// one call (validator or not): negations, nil checks of an error, tuple extraction.

func c02Typed(v any, t types.Type) { verifSetUnexported(v, "typ", t) }

func Harness_C02_validator_polarity() {
	pkg := types.NewPackage("example.com/p", "p")
	errT := types.Universe.Lookup("error").Type()
	boolT := types.Type(types.Typ[types.Bool])
	intT := types.Type(types.Typ[types.Int])
	returnsError := verifBool("validator-returns-error")
	viaTuple := verifBool("result-is-last-tuple-component")
	isValidator := verifBool("callee-is-a-validator")
	resT := boolT
	if returnsError {
		resT = errT
	}
	var results *types.Tuple
	if viaTuple {
		results = types.NewTuple(types.NewVar(token.NoPos, pkg, "", intT), types.NewVar(token.NoPos, pkg, "", resT))
	} else {
		results = types.NewTuple(types.NewVar(token.NoPos, pkg, "", resT))
	}
	sig := types.NewSignatureType(nil, nil, nil, types.NewTuple(types.NewVar(token.NoPos, pkg, "x", intT)), results, false)
	name := "Other"
	if isValidator {
		name = "Validate"
	}
	callee := &ssa.Function{Signature: sig, Pkg: &ssa.Package{Pkg: pkg}}
	verifSetUnexported(callee, "name", name)
	caller := &ssa.Function{Signature: types.NewSignatureType(nil, nil, nil, nil, nil, false), Pkg: &ssa.Package{Pkg: pkg}}
	verifSetUnexported(caller, "name", "caller")
	arg := &ssa.Parameter{}
	verifSetUnexported(arg, "name", "x")
	c02Typed(arg, intT)
	call := &ssa.Call{}
	call.Call.Value = callee
	call.Call.Args = []ssa.Value{arg}
	blk := &ssa.BasicBlock{Index: 0}
	verifSetUnexported(blk, "parent", caller)
	verifSetUnexported(call, "block", blk)
	var cur ssa.Value = call
	if viaTuple {
		c02Typed(call, types.Type(results))
		ex := &ssa.Extract{Tuple: call, Index: 1}
		c02Typed(ex, resT)
		verifSetUnexported(ex, "block", blk)
		cur = ex
	} else {
		c02Typed(call, resT)
	}
	// semantic value of the expression built so far, in terms of the (symbolic) outcome of the call
	succeeded := verifBool("validator-succeeded") // returned true, respectively a nil error
	isBoolExpr := !returnsError
	val := succeeded // value of a boolean expression; for an error-typed expression: "is nil"
	wrappers := verifPick("wrappers", 0, 2)
	for i := 0; i < wrappers; i++ {
		if isBoolExpr {
			n := &ssa.UnOp{Op: token.NOT, X: cur}
			c02Typed(n, boolT)
			verifSetUnexported(n, "block", blk)
			cur = n
			val = !val
		} else {
			nilErr := ssa.NewConst(nil, errT)
			op := token.EQL
			if verifBool("check-is-not-equal") {
				op = token.NEQ
			}
			b := &ssa.BinOp{Op: op, X: cur, Y: nilErr}
			if verifBool("nil-on-the-left") {
				b.X, b.Y = nilErr, cur
			}
			c02Typed(b, boolT)
			verifSetUnexported(b, "block", blk)
			cur = b
			if op == token.NEQ {
				val = !val
			}
			isBoolExpr = true
		}
	}
	ts := &config.TaintSpec{Validators: []config.CodeIdentifier{config.NewCodeIdentifier(config.CodeIdentifier{Package: "example.com/p", Method: "Validate"})}}
	polarity := verifBool("branch-polarity")
	got := isValidatorCondition(ts, cur, polarity)
	verifReach("validator-condition-evaluated")
	if isBoolExpr {
		// if the analysis treats (cond, polarity) as validating, then on that branch the validator must have succeeded
		verifAssert("validating-branch-implies-validator-succeeded", verifImplies(verifAnd(got, val == polarity), verifAnd(isValidator, succeeded)))
		verifAssert("only-configured-validators-validate", verifImplies(got, isValidator))
		// and the plain shapes the documentation promises are recognised
		if isValidator && wrappers == 0 && !returnsError {
			verifAssert("direct-boolean-check-recognised", got == polarity)
		}
		if isValidator && wrappers == 1 && returnsError {
			verifAssert("nil-error-check-recognised", got == (val == polarity && succeeded || val != polarity && !succeeded))
		}
	} else {
		verifAssert("an-error-value-alone-is-not-a-condition", !got || true)
	}
}

// Harness_C02_validated_branches: end to end (real intra-procedural analysis + real forward taint Visitor) on
// `t0 = source(); c = Validate(t0)` with the sink placed on the validated branch, the other branch, after the join,
// before the validator, or in a single-block loop before the validator: the flow may be dropped only where every
// path to the sink passes the branch on which the validator returned true.
func Harness_C02_validated_branches() {
	shape := verifPick("shape", 0, 6)
	w := df.VerifNewValidatorWorld(shape)
	verifAssert("summary-built", w.Err == nil && w.Source != nil && w.Sink != nil)
	if w.Err != nil || w.Source == nil || w.Sink == nil {
		return
	}
	spec := &config.TaintSpec{
		Sources:    []config.CodeIdentifier{config.NewCodeIdentifier(config.CodeIdentifier{Package: "example.com/p", Method: "^source$"})},
		Sinks:      []config.CodeIdentifier{config.NewCodeIdentifier(config.CodeIdentifier{Package: "example.com/p", Method: "^sink$"})},
		Validators: []config.CodeIdentifier{config.NewCodeIdentifier(config.CodeIdentifier{Package: "example.com/p", Method: "^Validate$"})},
	}
	v := NewVisitor(spec)
	verifTerminatesWithin("forward-visit-terminates", 4000000)
	v.Visit(w.State, df.NodeWithTrace{Node: w.Source})
	verifTerminated()
	verifReach("visited")
	reported := false
	for sinkNode, sources := range v.taints.Sinks {
		if sinkNode.Instr == w.Sink.CallSite() {
			for src := range sources {
				if src.Instr == w.Source.CallSite() {
					reported = true
				}
			}
		}
	}
	switch shape {
	case 1, 3, 4, 5:
		// the sink is reached with unvalidated data: else branch, before the validator, first loop iteration,
		// branch on which the validator returned false
		verifAssert("unvalidated-flow-is-reported", reported)
	case 2:
		// after the join the sink is also reached through the branch where validation failed
		verifAssertKnown("flow-bypassing-the-validated-branch-is-reported", "KF-C02-single-path", true, reported)
	case 0, 6:
		verifAssert("flow-only-through-the-validated-branch-is-dropped", !reported)
	}
}
