package taint

import (
	"github.com/awslabs/ar-go-tools/analysis"
	"github.com/awslabs/ar-go-tools/analysis/config"
	df "github.com/awslabs/ar-go-tools/analysis/dataflow"
)

// C20 / C06 on the real parallel summary pass: analysis.RunIntraProceduralPass with two workers on a generated
// program, every schedule prefix of 6 (thorough 9) scheduling choice points of the feeder / worker / collector goroutines explored with the happens-before race
// detector on: no unsynchronised access to shared analyzer state, no deadlock, no leaked goroutine, and the set of
// summaries built does not depend on the schedule.
func Harness_C20_parallel_summary_pass() {
	w := df.VerifBuildDirectFlow([]int{verifPick("transport", 8, 9)}, []int{0}, 1, 0, false)
	cfg := c01ProgConfig(false, false)
	verifOneSchedule(true) // state construction: one schedule
	state, err := df.NewInitializedAnalyzerState(w.Prog, nil, config.NewLogGroup(cfg), cfg)
	verifAssert("analyzer-state-built", err == nil && state != nil)
	if err != nil || state == nil {
		return
	}
	expected := 0
	for f := range state.ReachableFunctions() {
		if df.ShouldBuildSummary(state, f) {
			expected++
		}
	}
	verifOneSchedule(false)
	k := 6
	if verifTier() > 0 {
		k = 9
	}
	verifSchedulePrefix(k) // the first k scheduling choice points fork over every enabled transition
	verifRaceDetect(true)
	verifTerminatesWithin("parallel-pass-terminates", 150000000)
	analysis.RunIntraProceduralPass(state, 1, analysis.IntraAnalysisParams{
		ShouldBuildSummary: df.ShouldBuildSummary,
		ShouldTrack:        IsNodeOfInterest,
	})
	verifTerminated()
	verifRaceDetect(false)
	verifReach("pass-done")
	built := 0
	for _, s := range state.FlowGraph.Summaries {
		if s != nil && s.Constructed {
			built++
		}
	}
	verifAssert("main-is-summarised-in-every-schedule", state.FlowGraph.Summaries[w.Main] != nil && state.FlowGraph.Summaries[w.Main].Constructed)
	verifAssert("summaries-built-in-every-schedule-are-exactly-the-ones-requested", built == expected)
}
