package taint

import (
	"go/token"
	"go/types"

	"github.com/awslabs/ar-go-tools/analysis/config"
	"golang.org/x/tools/go/ssa"
)

// C04 kernel: a call through an interface value is identified by a specification that names the package and
// method of the called interface method, whether or not the implementation is known and wherever it lives.
func Harness_C04_interface_call_identified() {
	ifacePkg := types.NewPackage("example.com/wire", "wire")
	implPkgSame := verifBool("implementation-in-same-package")
	implKnown := verifBool("implementation-known")
	var implTypesPkg *types.Package
	if implPkgSame {
		implTypesPkg = ifacePkg
	} else {
		implTypesPkg = types.NewPackage("example.com/tcp", "tcp")
	}
	iface := types.NewNamed(types.NewTypeName(token.NoPos, ifacePkg, "Conn", nil), types.NewInterfaceType(nil, nil), nil)
	sig := types.NewSignatureType(nil, nil, nil, types.NewTuple(types.NewVar(token.NoPos, ifacePkg, "b", types.Typ[types.String])), nil, false)
	method := types.NewFunc(token.NoPos, ifacePkg, "Send", sig)
	recv := &ssa.Parameter{}
	verifSetUnexported(recv, "name", "c")
	verifSetUnexported(recv, "typ", types.Type(iface))
	arg := &ssa.Parameter{}
	verifSetUnexported(arg, "name", "b")
	verifSetUnexported(arg, "typ", types.Type(types.Typ[types.String]))
	caller := &ssa.Function{Signature: types.NewSignatureType(nil, nil, nil, nil, nil, false), Pkg: &ssa.Package{Pkg: ifacePkg}}
	verifSetUnexported(caller, "name", "caller")
	call := &ssa.Call{}
	call.Call.Value = recv
	call.Call.Method = method
	call.Call.Args = []ssa.Value{arg}
	blk := &ssa.BasicBlock{Index: 0}
	verifSetUnexported(blk, "parent", caller)
	verifSetUnexported(call, "block", blk)
	verifSetUnexported(call, "typ", types.Type(types.NewTuple()))
	var impl *ssa.Function
	if implKnown {
		impl = &ssa.Function{Signature: sig, Pkg: &ssa.Package{Pkg: implTypesPkg}}
		verifSetUnexported(impl, "name", "Send")
	}
	bySpecOfInterface := config.TaintSpec{Sinks: []config.CodeIdentifier{config.NewCodeIdentifier(config.CodeIdentifier{Package: "example.com/wire", Method: "Send"})}}
	unrelated := config.TaintSpec{Sinks: []config.CodeIdentifier{config.NewCodeIdentifier(config.CodeIdentifier{Package: "example.com/other", Method: "Send"})}}
	got := IsMatchingCodeIDWithCallee(bySpecOfInterface.IsSink, impl, call)
	verifReach("interface-call-checked")
	verifAssert("interface-call-identified-by-the-interface-methods-package", got)
	verifAssert("unrelated-package-does-not-match", !IsMatchingCodeIDWithCallee(unrelated.IsSink, impl, call))
}
