package taint

import (
	"github.com/awslabs/ar-go-tools/analysis/config"
	df "github.com/awslabs/ar-go-tools/analysis/dataflow"
)

// C01 / C10 end to end: `t0 = source(); t1 = other(); r = g(t0, t1); sink(v)` - main summarised by the real
// intra-procedural analysis, g summarised from a symbolic specification matrix by the real loader, and the real
// forward taint Visitor run from the source call: the flow source -> sink is reported when v is the source's
// value; when v is g's result it is reported exactly when the specification lists the result for argument 0.

func c01Subset(name string, universe []int) []int {
	var out []int
	for _, x := range universe {
		if verifPick(name, 0, 1) == 1 {
			out = append(out, x)
		}
	}
	return out
}

func Harness_C01_visit_main() {
	args := [][]int{c01Subset("args0", []int{0, 1}), c01Subset("args1", []int{0, 1})}
	rets := [][]int{c01Subset("rets0", []int{0}), c01Subset("rets1", []int{0})}
	k := verifPick("sink-operand", 0, 2)
	twice := verifPick("same-value-passed-twice", 0, 1) == 1
	w := df.VerifNewTaintWorld(args, rets, k, twice)
	verifAssert("summary-built", w.Err == nil && w.Source != nil && w.Sink != nil && w.G != nil)
	if w.Err != nil || w.Source == nil || w.Sink == nil || w.G == nil {
		return
	}
	spec := &config.TaintSpec{
		Sources: []config.CodeIdentifier{config.NewCodeIdentifier(config.CodeIdentifier{Package: "example.com/p", Method: "^source$"})},
		Sinks:   []config.CodeIdentifier{config.NewCodeIdentifier(config.CodeIdentifier{Package: "example.com/p", Method: "^sink$"})},
	}
	v := NewVisitor(spec)
	verifTerminatesWithin("forward-visit-terminates", 4000000)
	v.Visit(w.State, df.NodeWithTrace{Node: w.Source})
	verifTerminated()
	verifReach("visited")
	reported := false
	for sinkNode, sources := range v.taints.Sinks {
		if sinkNode.Instr == w.Sink.CallSite() {
			for src := range sources {
				if src.Instr == w.Source.CallSite() {
					reported = true
				}
			}
		}
	}
	// with g(t0, t0) the source's value is also argument 1
	listed := len(rets[0]) > 0 || (twice && len(rets[1]) > 0)
	switch k {
	case 0:
		verifAssert("direct-source-to-sink-flow-reported", reported)
	case 2:
		verifAssert("flow-through-specified-function-reported-when-result-listed-for-the-argument", !listed || reported)
		verifAssert("specification-applied-exactly-no-flow-when-result-not-listed-for-the-argument", listed || !reported)
	}
}

// Harness_C05_on_demand_equivalence (also C01: parameter passing and returns through a summarised callee):
// `t0 = source(); t1 = other(); r = h(t0, t1); sink(r)` with `h(a, b) { v = op(x); return v }`: the flow is
// reported exactly when x is the parameter that receives the source, and the verdict is the same whether h was
// summarised before the traversal or is summarised on demand by the visitor.
func Harness_C05_on_demand_equivalence() {
	op := verifPick("op", 0, 3)
	operand := verifPick("operand", 0, 1)
	verdict := func(onDemand bool) (bool, bool) {
		w := df.VerifNewInterWorld(op, operand, onDemand)
		if w.Err != nil || w.Source == nil || w.Sink == nil || w.H == nil {
			return false, false
		}
		spec := &config.TaintSpec{
			Sources: []config.CodeIdentifier{config.NewCodeIdentifier(config.CodeIdentifier{Package: "example.com/p", Method: "^source$"})},
			Sinks:   []config.CodeIdentifier{config.NewCodeIdentifier(config.CodeIdentifier{Package: "example.com/p", Method: "^sink$"})},
		}
		v := NewVisitor(spec)
		v.Visit(w.State, df.NodeWithTrace{Node: w.Source})
		for sinkNode, sources := range v.taints.Sinks {
			if sinkNode.Instr == w.Sink.CallSite() {
				for src := range sources {
					if src.Instr == w.Source.CallSite() {
						return true, true
					}
				}
			}
		}
		return false, true
	}
	verifTerminatesWithin("forward-visit-terminates", 8000000)
	eager, ok1 := verdict(false)
	lazy, ok2 := verdict(true)
	verifTerminated()
	verifReach("both-modes-run")
	verifAssert("worlds-built", ok1 && ok2)
	verifAssert("flow-through-callee-body-reported-iff-result-derives-from-the-tainted-parameter", eager == (operand == 0))
	verifAssert("summarize-on-demand-does-not-change-the-verdict", eager == lazy)
}

// Harness_C01_flow_through_global: a flow from a source written into a package-level variable in one function to a
// sink that reads the variable in another function, end to end (real intra-procedural analysis of all three
// functions, real global read/write registration, real forward Visitor). Writes to a *part* of the variable
// (a struct field, an array element) are the region of known finding KF-C01-partial-global-write.
func Harness_C01_flow_through_global() {
	shape := verifPick("shape", 0, 2)
	w := df.VerifNewGlobalWorld(shape)
	verifAssert("world-built", w.Err == nil && w.Source != nil && w.Sink != nil)
	if w.Err != nil || w.Source == nil || w.Sink == nil {
		return
	}
	spec := &config.TaintSpec{
		Sources: []config.CodeIdentifier{config.NewCodeIdentifier(config.CodeIdentifier{Package: "example.com/p", Method: "^source$"})},
		Sinks:   []config.CodeIdentifier{config.NewCodeIdentifier(config.CodeIdentifier{Package: "example.com/p", Method: "^sink$"})},
	}
	v := NewVisitor(spec)
	verifTerminatesWithin("forward-visit-terminates", 6000000)
	v.Visit(w.State, df.NodeWithTrace{Node: w.Source})
	verifTerminated()
	verifReach("visited")
	reported := false
	for sinkNode, sources := range v.taints.Sinks {
		if sinkNode.Instr == w.Sink.CallSite() {
			for src := range sources {
				if src.Instr == w.Source.CallSite() {
					reported = true
				}
			}
		}
	}
	verifAssertKnown("flow-through-a-global-is-reported", "KF-C01-partial-global-write", shape != 0, reported)
}
