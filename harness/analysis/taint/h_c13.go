package taint

import (
	"github.com/awslabs/ar-go-tools/analysis/config"
	df "github.com/awslabs/ar-go-tools/analysis/dataflow"
)

// C13: the whole real taint.Analyze pipeline with use-escape-analysis (analyzer state construction with the pointer
// analysis, escape bottom-up pass, intra-procedural pass, inter-procedural taint traversal with escape contexts) on
// every program of the generated family df.VerifBuildFlowProgram: source data is stored into a memory cell that a
// goroutine reads and passes to a sink. The flow is observable in the schedule where the load follows the store, so
// the result must contain the taint flow source -> sink or an escape report for that source.

func c13Config() *config.Config {
	cfg := config.NewDefault()
	cfg.UseEscapeAnalysis = true
	cfg.EscapeConfig = config.NewEscapeConfig()
	cfg.TaintTrackingProblems = []config.TaintSpec{{
		Sources: []config.CodeIdentifier{config.NewCodeIdentifier(config.CodeIdentifier{Package: "main", Method: "^source$"})},
		Sinks:   []config.CodeIdentifier{config.NewCodeIdentifier(config.CodeIdentifier{Package: "main", Method: "^sink$"})},
	}}
	return cfg
}

func c13StringData() {
	df.VerifFlowStringData = verifPick("string-data", 0, 1) == 1
}

func c13Check(w *df.VerifFlowWorld) {
	df.VerifFlowStringData = false
	verifOneSchedule(true) // the analyzer's own worker goroutines: one schedule (their schedules are the subject of C06/C20)
	verifTerminatesWithin("taint-analysis-terminates", 150000000)
	res, err := Analyze(c13Config(), w.Prog, nil)
	verifTerminated()
	verifReach("analysed")
	flow := false
	escape := false
	if res.TaintFlows != nil {
		for sinkNode, sources := range res.TaintFlows.Sinks {
			if sinkNode.Instr == w.Sink {
				for s := range sources {
					if s.Instr == w.Source {
						flow = true
					}
				}
			}
		}
		for _, sources := range res.TaintFlows.Escapes {
			if sources[w.Source] {
				escape = true
			}
		}
	}
	if flow {
		verifReach("flow-reported")
	}
	if escape {
		verifReach("escape-reported")
	}
	_ = err
	verifAssert("observable-flow-through-shared-memory-is-reported-as-flow-or-escape", flow || escape)
}

func Harness_C13_shared_cell() {
	c13StringData()
	share := verifPick("share", 0, 4)
	first := verifPick("share-before-store", 0, 1) == 1
	storeForm := verifPick("store-form", 0, 3)
	w := df.VerifBuildFlowProgram(share, first, -1, 0, storeForm, -1, 0)
	c13Check(w)
}

// the source's value travels through a transport before it is stored into the shared cell
func Harness_C13_data_through_transport() {
	c13StringData()
	t := verifPick("transport", 0, df.VerifNumTransports-1)
	variant := verifPick("variant", 0, 1)
	first := verifPick("share-before-store", 0, 1) == 1
	share := 0
	if verifTier() > 0 {
		share = verifPick("share", 0, 4)
	}
	w := df.VerifBuildFlowProgram(share, first, t, variant, 0, -1, 0)
	c13Check(w)
}

// the address of the shared cell travels through a transport before main writes the source's value through it
func Harness_C13_cell_through_transport() {
	c13StringData()
	t := verifPick("transport", 0, df.VerifNumTransports-1)
	variant := verifPick("variant", 0, 1)
	first := verifPick("share-before-store", 0, 1) == 1
	storeForm := 0
	if verifTier() > 0 {
		storeForm = verifPick("store-form", 0, 1)
	}
	w := df.VerifBuildFlowProgram(0, first, -1, 0, storeForm, t, variant)
	c13Check(w)
}

// two transports on the address of the shared cell (thorough tier)
func Harness_C13_cell_through_transport_pairs_T() {
	n := df.VerifNumTransports
	t1 := verifPick("t1", 0, n-1)
	t2 := verifPick("t2", 0, n-1)
	first := verifPick("share-before-store", 0, 1) == 1
	c13StringData()
	w := df.VerifBuildFlowProgram2(0, first, []int{t1, t2}, []int{1, 0})
	c13Check(w)
}
