package taint

import (
	"github.com/awslabs/ar-go-tools/analysis/config"
	df "github.com/awslabs/ar-go-tools/analysis/dataflow"
)

// C01 on whole programs: the real taint.Analyze pipeline on every program x := source(); q := T(x); sink(q) of the
// generated sequential family (df.VerifBuildDirectFlow), T ranging over the explicit data operations of the
// fragment (copies, stores and loads through memory cells / fields / slices / maps / interfaces / globals, parameter
// passing and returns through every dispatch form, closure capture, phi, append, deferred calls), in main or inside a
// callee, the sink receiving the value or a pointer to a struct holding it, with field sensitivity and on-demand
// summarisation on or off: the flow source -> sink must be reported. (C05: same verdict eager / on demand.)

func c01ProgConfig(fieldSensitive, onDemand bool) *config.Config {
	cfg := config.NewDefault()
	cfg.PathSensitive = fieldSensitive
	cfg.SummarizeOnDemand = onDemand
	cfg.TaintTrackingProblems = []config.TaintSpec{{
		Sources: []config.CodeIdentifier{config.NewCodeIdentifier(config.CodeIdentifier{Package: "main", Method: "^source$"})},
		Sinks:   []config.CodeIdentifier{config.NewCodeIdentifier(config.CodeIdentifier{Package: "main", Method: "^sink$"})},
	}}
	return cfg
}

func c01ProgReported(w *df.VerifFlowWorld, cfg *config.Config) bool {
	verifOneSchedule(true) // the analyzer's own worker goroutines: one schedule (their schedules are the subject of C06/C20)
	verifTerminatesWithin("taint-analysis-terminates", 150000000)
	res, _ := Analyze(cfg, w.Prog, nil)
	verifTerminated()
	verifReach("analysed")
	if res.TaintFlows == nil {
		return false
	}
	for sinkNode, sources := range res.TaintFlows.Sinks {
		if sinkNode.Instr == w.Sink {
			for s := range sources {
				if s.Instr == w.Source {
					return true
				}
			}
		}
	}
	return false
}

func Harness_C01_flow_through_transport() {
	t := verifPick("transport", 0, df.VerifNumTransports-1)
	verifAssume(df.VerifSequentialTransport(t))
	variant := verifPick("variant", 0, 1)
	split := verifPick("split", 0, 1)
	sinkForm := verifPick("sink-form", 0, 1)
	stringData := verifPick("string-data", 0, 1) == 1
	fieldSensitive := false
	onDemand := false
	if verifTier() > 0 {
		fieldSensitive = verifPick("field-sensitive", 0, 1) == 1
		onDemand = verifPick("on-demand", 0, 1) == 1
	}
	w := df.VerifBuildDirectFlow([]int{t}, []int{variant}, split, sinkForm, stringData)
	// field-sensitive, string data through a map inside a callee, sink receiving a struct: recorded finding
	known := fieldSensitive && stringData && df.VerifMapTransport(t) && split == 0 && sinkForm == 1
	verifAssertKnown("explicit-source-to-sink-flow-is-reported", "KF-C01-field-sensitive-map-in-callee", known, c01ProgReported(w, c01ProgConfig(fieldSensitive, onDemand)))
}

// C05 on whole programs: the reported (source, sink) pairs of the whole pipeline are the same with
// summarize-on-demand on and off, on every program of the sequential family (the callee mid, the helpers and the
// closures are summarised before the traversal in one run and on demand in the other).
func Harness_C05_on_demand_whole_pipeline() {
	t := verifPick("transport", 0, df.VerifNumTransports-1)
	verifAssume(df.VerifSequentialTransport(t))
	variant := verifPick("variant", 0, 1)
	sinkForm := 0
	if verifTier() > 0 {
		sinkForm = verifPick("sink-form", 0, 1)
	}
	stringData := verifPick("string-data", 0, 1) == 1
	eager := c01ProgReported(df.VerifBuildDirectFlow([]int{t}, []int{variant}, 0, sinkForm, stringData), c01ProgConfig(false, false))
	onDemand := c01ProgReported(df.VerifBuildDirectFlow([]int{t}, []int{variant}, 0, sinkForm, stringData), c01ProgConfig(false, true))
	verifAssert("same-verdict-with-summarize-on-demand-on-and-off", eager == onDemand)
	verifAssert("flow-reported-with-summarize-on-demand", onDemand)
}

// control (vacuity witness for the assertions above): when the sink receives a value that never holds the source's
// data, the pipeline is able to report nothing - "reported" is not the only verdict it produces on this family
func Harness_C01_no_flow_control() {
	stringData := verifPick("string-data", 0, 1) == 1
	w := df.VerifBuildDirectFlow([]int{0}, []int{0}, 1, 2, stringData)
	if !c01ProgReported(w, c01ProgConfig(false, false)) {
		verifReach("no-flow-is-not-reported")
	}
	verifReach("control-done")
}


// chains of two sequential transports (thorough tier), second one in main or in a callee, string or pointer data
func Harness_C01_flow_through_transport_pairs_T() {
	t1 := verifPick("t1", 0, df.VerifNumTransports-1)
	t2 := verifPick("t2", 0, df.VerifNumTransports-1)
	verifAssume(df.VerifSequentialTransport(t1) && df.VerifSequentialTransport(t2))
	split := verifPick("split", 1, 2)
	stringData := verifPick("string-data", 0, 1) == 1
	w := df.VerifBuildDirectFlow([]int{t1, t2}, []int{0, 1}, split, 0, stringData)
	verifAssert("explicit-source-to-sink-flow-is-reported", c01ProgReported(w, c01ProgConfig(false, false)))
}

// chains of two sequential transports with summarize-on-demand (thorough tier): same verdict as eager
func Harness_C05_on_demand_whole_pipeline_pairs_T() {
	t1 := verifPick("t1", 0, df.VerifNumTransports-1)
	t2 := verifPick("t2", 0, df.VerifNumTransports-1)
	verifAssume(df.VerifSequentialTransport(t1) && df.VerifSequentialTransport(t2))
	stringData := verifPick("string-data", 0, 1) == 1
	eager := c01ProgReported(df.VerifBuildDirectFlow([]int{t1, t2}, []int{0, 1}, 1, 0, stringData), c01ProgConfig(false, false))
	onDemand := c01ProgReported(df.VerifBuildDirectFlow([]int{t1, t2}, []int{0, 1}, 1, 0, stringData), c01ProgConfig(false, true))
	verifAssert("same-verdict-with-summarize-on-demand-on-and-off", eager == onDemand)
}


// C07 (also C01): with field sensitivity on, the whole taint pipeline terminates on every single-transport program
// whose chain runs inside a callee and whose sink receives a struct holding the value (the shapes on which the
// traversal used to diverge, D19).
func Harness_C07_field_sensitive_pipeline_terminates() {
	t := verifPick("transport", 0, df.VerifNumTransports-1)
	verifAssume(df.VerifSequentialTransport(t))
	stringData := verifPick("string-data", 0, 1) == 1
	w := df.VerifBuildDirectFlow([]int{t}, []int{1}, 0, 1, stringData)
	// the assertions of this harness are the termination window and the absence of Go panics inside c01ProgReported;
	// the verdict itself is C01's subject (thorough tier of Harness_C01_flow_through_transport)
	if c01ProgReported(w, c01ProgConfig(true, false)) {
		verifReach("flow-reported-with-field-sensitivity")
	}
}

// two closures in sequence (by-value binding / captured cell, in either order), pointer or string data, written in
// main (no calling context) or with the second one inside a callee: the shape of D16, at the quick tier
func Harness_C01_closure_chain() {
	closures := []int{}
	for t := 0; t < df.VerifNumTransports; t++ {
		if df.VerifClosureTransport(t) {
			closures = append(closures, t)
		}
	}
	t1 := closures[verifPick("t1", 0, len(closures)-1)]
	t2 := closures[verifPick("t2", 0, len(closures)-1)]
	split := verifPick("split", 1, 2)
	stringData := verifPick("string-data", 0, 1) == 1
	w := df.VerifBuildDirectFlow([]int{t1, t2}, []int{0, 1}, split, 0, stringData)
	verifAssert("explicit-source-to-sink-flow-is-reported", c01ProgReported(w, c01ProgConfig(false, false)))
}
