package lang

import (
	"go/token"

	"golang.org/x/tools/go/ssa"
)

// C05 kernel (summarize-on-demand): when tainted data is written to a global, the on-demand visitor summarises
// exactly the functions for which FnReadsFrom(f, global) holds; a function that uses the global in any reading
// position must therefore be recognised, whatever package (or none: generic instantiations) it belongs to.

const (
	c05Load = iota
	c05BinOp
	c05StoreVal
	c05FieldAddr
	c05IndexAddr
	c05Slice
	c05CallArg
	c05MakeInterface
	c05ChangeType
	c05Convert
	c05Return
	c05Phi
	c05NumForms
)

func c05Reader(form int, g ssa.Value) ssa.Instruction {
	switch form {
	case c05Load:
		return &ssa.UnOp{Op: token.MUL, X: g}
	case c05BinOp:
		return &ssa.BinOp{Op: token.EQL, X: g, Y: g}
	case c05StoreVal:
		return &ssa.Store{Addr: &ssa.Alloc{}, Val: g}
	case c05FieldAddr:
		return &ssa.FieldAddr{X: g}
	case c05IndexAddr:
		return &ssa.IndexAddr{X: g, Index: &ssa.Parameter{}}
	case c05Slice:
		return &ssa.Slice{X: g}
	case c05CallArg:
		c := &ssa.Call{}
		c.Call.Value = &ssa.Function{}
		c.Call.Args = []ssa.Value{g}
		return c
	case c05MakeInterface:
		return &ssa.MakeInterface{X: g}
	case c05ChangeType:
		return &ssa.ChangeType{X: g}
	case c05Convert:
		return &ssa.Convert{X: g}
	case c05Return:
		return &ssa.Return{Results: []ssa.Value{g}}
	default:
		return &ssa.Phi{Edges: []ssa.Value{g}}
	}
}

func Harness_C05_global_readers() {
	pkg := &ssa.Package{}
	other := &ssa.Package{}
	glob := &ssa.Global{Pkg: pkg}
	exported := verifBool("global-exported")
	if exported {
		verifSetUnexported(glob, "name", "Shared")
	} else {
		verifSetUnexported(glob, "name", "shared")
	}
	fn := &ssa.Function{}
	switch verifPick("reader-package", 0, 2) {
	case 0:
		fn.Pkg = pkg
	case 1:
		fn.Pkg = other
	default:
		fn.Pkg = nil // instantiated generic function or synthetic wrapper
	}
	form := verifPick("form", 0, c05NumForms-1)
	fn.Blocks = []*ssa.BasicBlock{{Index: 0, Instrs: []ssa.Instruction{&ssa.Jump{}}}, {Index: 1, Instrs: []ssa.Instruction{c05Reader(form, glob), &ssa.Return{}}}}
	verifReach("scanned")
	verifAssert("function-reading-the-global-is-recognised", FnReadsFrom(fn, glob))
	// pure write positions are not reads
	wr := &ssa.Function{Pkg: pkg, Blocks: []*ssa.BasicBlock{{Index: 0, Instrs: []ssa.Instruction{&ssa.Store{Addr: glob, Val: &ssa.Parameter{}}, &ssa.Return{}}}}}
	verifAssert("function-only-writing-the-global-is-a-writer", FnWritesTo(wr, glob))
	empty := &ssa.Function{Pkg: pkg, Blocks: []*ssa.BasicBlock{{Index: 0, Instrs: []ssa.Instruction{&ssa.Return{}}}}}
	verifAssert("function-not-using-the-global-is-not-a-reader", !FnReadsFrom(empty, glob))
}
