package config

// C04: a code location is identified exactly when every non-empty field of some specification matches it.

type c04Fields struct {
	Context, Package, Interface, Method, Receiver, Field, Type, ValueMatch, Kind string
}

func c04Cid(prefix string, symbolic []bool, isRef bool) (CodeIdentifier, c04Fields) {
	get := func(i int, name string) string {
		if symbolic[i] {
			return verifString(prefix + "." + name)
		}
		return ""
	}
	f := c04Fields{
		Context: get(0, "context"), Package: get(1, "package"), Interface: "", Method: get(2, "method"),
		Receiver: get(3, "receiver"), Field: get(4, "field"), Type: get(5, "type"), ValueMatch: get(6, "value-match"),
		Kind: get(7, "kind"),
	}
	cid := CodeIdentifier{Context: f.Context, Package: f.Package, Interface: f.Interface, Method: f.Method,
		Receiver: f.Receiver, Field: f.Field, Type: f.Type, ValueMatch: f.ValueMatch, Kind: f.Kind}
	if isRef {
		cid = NewCodeIdentifier(cid)
	}
	return cid, f
}

// c04Spec: the reference semantics - every non-empty specification field matches (as an unanchored regular
// expression; for the literal patterns of the harness: is a substring of) the candidate's field, and the kinds agree.
func c04Spec(ref, cand c04Fields) bool {
	m := func(r, c string) bool { return verifOr(r == "", verifContains(c, r)) }
	all := m(ref.Context, cand.Context)
	all = verifAnd(all, m(ref.Package, cand.Package))
	all = verifAnd(all, m(ref.Method, cand.Method))
	all = verifAnd(all, m(ref.Receiver, cand.Receiver))
	all = verifAnd(all, m(ref.Field, cand.Field))
	all = verifAnd(all, m(ref.Type, cand.Type))
	all = verifAnd(all, m(ref.ValueMatch, cand.ValueMatch))
	all = verifAnd(all, ref.Kind == cand.Kind)
	return all
}

func c04Symbolic() []bool {
	if verifTier() > 0 {
		return []bool{true, true, true, true, true, true, true, true}
	}
	// quick tier: package, method, receiver and kind are symbolic; the other fields are empty
	return []bool{false, true, true, true, false, false, false, true}
}

// Harness_C04_match_one: one specification against one candidate.
func Harness_C04_match_one() {
	sym := c04Symbolic()
	ref, rf := c04Cid("spec", sym, true)
	cand, cf := c04Cid("cand", sym, false)
	got := cand.equalOnNonEmptyFields(ref)
	verifReach("matched")
	verifAssert("identified-exactly-when-every-nonempty-field-matches", got == c04Spec(rf, cf))
}

// Harness_C04_spec_lists: a candidate is a source / sink / sanitizer / validator / backtrace point exactly when
// some entry of the corresponding list matches it.
func Harness_C04_spec_lists() {
	sym := []bool{false, true, true, false, false, false, false, false}
	r1, f1 := c04Cid("spec1", sym, true)
	r2, f2 := c04Cid("spec2", sym, true)
	cand, cf := c04Cid("cand", sym, false)
	want := verifOr(c04Spec(f1, cf), c04Spec(f2, cf))
	which := verifPick("list", 0, 4)
	var got bool
	switch which {
	case 0:
		got = TaintSpec{Sources: []CodeIdentifier{r1, r2}}.IsSource(cand)
	case 1:
		got = TaintSpec{Sinks: []CodeIdentifier{r1, r2}}.IsSink(cand)
	case 2:
		got = TaintSpec{Sanitizers: []CodeIdentifier{r1, r2}}.IsSanitizer(cand)
	case 3:
		got = TaintSpec{Validators: []CodeIdentifier{r1, r2}}.IsValidator(cand)
	default:
		got = SlicingSpec{BacktracePoints: []CodeIdentifier{r1, r2}}.IsBacktracePoint(cand)
	}
	verifReach("listed")
	verifAssert("list-membership-iff-some-entry-matches", got == want)
	// the lists do not leak into each other
	other := TaintSpec{Sources: []CodeIdentifier{r1, r2}}
	verifAssert("sources-are-not-sinks", !other.IsSink(cand))
}
