package maypanic

import (
	"go/token"
	"go/types"
	"strings"

	"golang.org/x/tools/go/ssa"
)

// C19 kernel: goroutine entry functions launched by static `go` forms, recover detection, and the allow list, on
// skeleton programs built from struct literals.

const (
	c19None = iota
	c19GoFunc
	c19GoClosure
	c19DeferFunc
	c19DeferClosure
	c19CallRecover
	c19CallFunc
	c19NumKinds
)

type c19Instr struct {
	kind, target int
}

func c19Build(nf, slots int) ([]*ssa.Function, [][]c19Instr, map[*ssa.Function]bool) {
	fns := make([]*ssa.Function, nf)
	for i := range fns {
		fns[i] = &ssa.Function{}
		verifSetUnexported(fns[i], "name", "f")
	}
	shape := make([][]c19Instr, nf)
	all := map[*ssa.Function]bool{}
	pos := 1
	for i, fn := range fns {
		var instrs []ssa.Instruction
		for s := 0; s < slots; s++ {
			k := verifPick("instr-kind", 0, c19NumKinds-1)
			t := 0
			if k != c19None && k != c19CallRecover {
				t = verifPick("target", 0, nf-1)
			}
			shape[i] = append(shape[i], c19Instr{k, t})
			switch k {
			case c19GoFunc:
				g := &ssa.Go{}
				g.Call.Value = fns[t]
				verifSetUnexported(g, "pos", token.Pos(pos))
				instrs = append(instrs, g)
			case c19GoClosure:
				g := &ssa.Go{}
				g.Call.Value = &ssa.MakeClosure{Fn: fns[t]}
				verifSetUnexported(g, "pos", token.Pos(pos))
				instrs = append(instrs, g)
			case c19DeferFunc:
				d := &ssa.Defer{}
				d.Call.Value = fns[t]
				instrs = append(instrs, d)
			case c19DeferClosure:
				d := &ssa.Defer{}
				d.Call.Value = &ssa.MakeClosure{Fn: fns[t]}
				instrs = append(instrs, d)
			case c19CallRecover:
				c := &ssa.Call{}
				b := &ssa.Builtin{}
				verifSetUnexported(b, "name", "recover")
				c.Call.Value = b
				instrs = append(instrs, c)
			case c19CallFunc:
				c := &ssa.Call{}
				c.Call.Value = fns[t]
				instrs = append(instrs, c)
			}
			pos++
		}
		instrs = append(instrs, &ssa.Return{})
		fn.Blocks = []*ssa.BasicBlock{{Index: 0, Instrs: instrs}}
		all[fn] = true
	}
	return fns, shape, all
}

func c19Run(nf, slots int) {
	fns, shape, all := c19Build(nf, slots)
	goFns := findGoFunctions(all)
	recoverFns := findRecoverFunctions(all)
	errored := findErroredFunctions(goFns, recoverFns)
	verifReach("analysed")
	// oracle
	launches := make([]int, nf)
	recovers := make([]bool, nf)
	for i := range fns {
		for _, in := range shape[i] {
			switch in.kind {
			case c19GoFunc, c19GoClosure:
				launches[in.target]++
			case c19CallRecover:
				recovers[i] = true
			}
		}
	}
	for j, f := range fns {
		sites, launched := goFns[f]
		verifAssert("launched-iff-some-go-statement-starts-it", launched == (launches[j] > 0))
		verifAssert("every-creation-site-recorded", len(sites) == launches[j])
		verifAssert("recover-function-iff-it-calls-recover", recoverFns[f] == recovers[j])
		defersRecovering := false
		for _, in := range shape[j] {
			if (in.kind == c19DeferFunc || in.kind == c19DeferClosure) && recovers[in.target] {
				defersRecovering = true
			}
		}
		verifAssert("reported-iff-launched-without-recovering-defer", errored[f] == (launches[j] > 0 && !defersRecovering))
	}
}

// Harness_C19_static_forms: 2 functions x 2 instruction slots.
func Harness_C19_static_forms() { c19Run(2, 2) }

// Harness_C19_static_forms_3_T: 3 functions x 2 slots (thorough).
func Harness_C19_static_forms_3_T() { c19Run(3, 2) }

// Harness_C19_allow_list: a package is skipped exactly when it is, or lies under, an allow-listed path.
func Harness_C19_allow_list() {
	paths := []string{"fmt", "fmt/sub", "fmtx", "fmtx/sub", "golang.org/x", "golang.org/x/tools/go/ssa", "golang.org/xyz",
		"golang.org", "example.com/fmt", "example.com/net/http", "net/http", "netx", "", "internal/abi", "myinternal", "go/types", "gopkg.in/yaml.v3", "os", "osx/exec", "github.com/awslabs/ar-go-tools/analysis"}
	want := []bool{true, true, false, false, true, true, false,
		false, false, false, true, false, false, true, false, true, false, true, false, false}
	k := verifPick("path", 0, len(paths)-1)
	verifReach("looked-up")
	verifAssert("allow-listed-iff-equal-or-under-a-listed-path", allowListed(paths[k]) == want[k])
}

// Harness_C19_analyzer: the whole MayPanicAnalyzer on a hand-built program: which goroutine entry functions it
// prints, including functions without an enclosing package (generic instantiations, synthetic wrappers) and
// functions of allow-listed / look-alike packages.
func Harness_C19_analyzer() {
	userPkg := &ssa.Package{Pkg: types.NewPackage("example.com/app", "app"), Members: map[string]ssa.Member{}}
	stdPkg := &ssa.Package{Pkg: types.NewPackage("net/http", "http"), Members: map[string]ssa.Member{}}
	alikePkg := &ssa.Package{Pkg: types.NewPackage("network/tools", "tools"), Members: map[string]ssa.Member{}}
	prog := &ssa.Program{Fset: token.NewFileSet()}
	verifSetUnexported(prog, "packages", map[*types.Package]*ssa.Package{userPkg.Pkg: userPkg, stdPkg.Pkg: stdPkg, alikePkg.Pkg: alikePkg})
	mk := func(name string, pkg *ssa.Package) *ssa.Function {
		f := &ssa.Function{Pkg: pkg, Prog: prog, Signature: types.NewSignatureType(nil, nil, nil, nil, nil, false)}
		verifSetUnexported(f, "name", name)
		f.Blocks = []*ssa.BasicBlock{{Index: 0, Instrs: []ssa.Instruction{&ssa.Return{}}}}
		if pkg != nil {
			pkg.Members[name] = f
			pkg.Prog = prog
		}
		return f
	}
	main := mk("main", userPkg)
	recoverer := mk("recoverer", userPkg)
	rb := &ssa.Builtin{}
	verifSetUnexported(rb, "name", "recover")
	rc := &ssa.Call{}
	rc.Call.Value = rb
	recoverer.Blocks[0].Instrs = []ssa.Instruction{rc, &ssa.Return{}}
	// the launched function: where it lives and whether it defers a recovering function
	where := verifPick("launched-function-package", 0, 3)
	var launched *ssa.Function
	switch where {
	case 0:
		launched = mk("worker", userPkg)
	case 1:
		launched = mk("stage[int]", nil) // no enclosing package: generic instantiation / synthetic wrapper
	case 2:
		launched = mk("serve", stdPkg)
	default:
		launched = mk("poll", alikePkg)
	}
	recovers := verifBool("launched-function-defers-recover")
	if recovers {
		d := &ssa.Defer{}
		d.Call.Value = recoverer
		launched.Blocks[0].Instrs = []ssa.Instruction{d, &ssa.Return{}}
	}
	g := &ssa.Go{}
	g.Call.Value = launched
	verifSetUnexported(g, "pos", token.Pos(1))
	main.Blocks[0].Instrs = []ssa.Instruction{g, &ssa.Return{}}
	out := verifCaptureStdout(func() { MayPanicAnalyzer(prog, nil, false) })
	verifReach("analyzer-ran")
	reported := strings.Contains(out, "unrecovered panic in") && strings.Contains(out, launched.Name())
	expect := !recovers && where != 2 // standard-library entries are out of scope, everything else is reported
	verifAssert("goroutine-entry-without-recovering-defer-is-reported", !expect || reported)
	verifAssert("recovering-or-allow-listed-entry-is-not-reported", expect || !reported)
}
